#!/bin/sh
# offline setup: pre-build the plain and ASan flavours of the native layer into .cache
cd "$(dirname "$0")" || exit 1
export PYTHONDONTWRITEBYTECODE=1
PYTHONPATH=. /venv/bin/python -P -m vf.build || echo "setup: pre-build failed (checks rebuild on demand)"
exit 0
