#!/bin/sh
# offline setup: pre-build the plain and ASan flavours of the native layer into .cache
cd "$(dirname "$0")" || exit 1
export PYTHONDONTWRITEBYTECODE=1
/venv/bin/python -P -c "import sys; sys.path.insert(0, '.'); from vf import build; import runpy; runpy.run_module('vf.build', run_name='__main__')" || echo "setup: pre-build failed (checks rebuild on demand)"
exit 0
