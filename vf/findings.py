"""Known-findings classifier: match violation facts against committed entries."""
from __future__ import annotations

import json
import os

VERIF = os.path.dirname(os.path.dirname(os.path.abspath(__file__)))
OPS = {
    "==": lambda a, b: a == b,
    "!=": lambda a, b: a != b,
    "<": lambda a, b: a < b,
    "<=": lambda a, b: a <= b,
    ">": lambda a, b: a > b,
    ">=": lambda a, b: a >= b,
}


def load():
    path = os.path.join(VERIF, "known_findings.json")
    if not os.path.exists(path):
        return []
    with open(path) as handle:
        return json.load(handle).get("findings", [])


def _cond(value, want):
    if isinstance(want, dict):
        if value is None:
            return False
        for op, ref in want.items():
            if op == "in":
                if value not in ref:
                    return False
            elif op == "contains":
                if ref not in value:
                    return False
            else:
                try:
                    if not OPS[op](value, ref):
                        return False
                except TypeError:
                    return False
        return True
    if isinstance(want, list):
        return value in want
    return value == want


def matches(entry, prop, facts):
    if entry.get("property") != prop:
        return False
    match = entry.get("match", {})
    if "failure" not in match:
        return False
    return all(_cond(facts.get(key), want) for key, want in match.items())


def classify(prop, facts, entries):
    for entry in entries:
        if matches(entry, prop, facts):
            return entry
    return None
