"""Seeded workload generators: JSON-serialisable operand specs, builders, models.

A *spec* fully describes an operand (so a case can be replayed from its JSON
form); ``build(spec)`` makes the real object, ``model(spec)`` the expected
model array computed from the spec alone (never from the built object).
"""
from __future__ import annotations

import random
from fractions import Fraction

import numpy

from . import model as M

SHAPES = [(), (), (1,), (3,), (2,), (1, 3), (2, 1), (2, 3), (2, 2), (2, 1, 3), (1, 2, 2), (3, 1, 1)]
NAME_POOLS = [
    ["q0"], ["q1"], ["q0", "q1"], ["q0", "q2"], ["q1", "q2"], ["q0", "q1", "q2"],
    ["q2", "q10"], ["q10"], ["q0", "q1", "q2", "q3"], ["q1", "q3"], ["q2"],
]
KINDS = ["int", "int", "int", "float", "complex"]


def jnum(value):
    """Number -> JSON form."""
    if isinstance(value, complex):
        return {"re": value.real, "im": value.imag}
    if isinstance(value, float) and value != value:
        return {"nf": "nan"}
    if isinstance(value, float) and value in (float("inf"), float("-inf")):
        return {"nf": "inf" if value > 0 else "-inf"}
    return value


def unj(value):
    if isinstance(value, dict) and "re" in value:
        return complex(value["re"], value["im"])
    if isinstance(value, dict) and "nf" in value:
        return float(value["nf"])
    return value


def unj_nested(data):
    if isinstance(data, list):
        return [unj_nested(x) for x in data]
    return unj(data)


def nested_map(func, data):
    if isinstance(data, list):
        return [nested_map(func, x) for x in data]
    return func(data)


class Gen:
    def __init__(self, seed):
        self.rng = random.Random(seed)

    # -- numbers -----------------------------------------------------------
    def number(self, kind, small=True, nonzero=False):
        rng = self.rng
        while True:
            if kind == "int":
                val = rng.choice([0, 1, -1, 2, -2, 3, 5, -7]) if small else rng.randint(-50, 50)
            elif kind == "float":
                val = rng.choice([0.0, 1.0, -1.0, 0.5, -2.5, 1.25, 3.0, -0.75, 4.0])
            elif kind == "complex":
                val = complex(rng.choice([0, 1, -1, 2, 0.5]), rng.choice([0, 1, -1, 2, -0.5]))
            elif kind == "bool":
                val = rng.choice([True, False])
            else:
                raise ValueError(kind)
            if not nonzero or val:
                return val

    def array_data(self, shape, kind, zero_prob=0.2, small=True):
        def rec(dims):
            if not dims:
                if self.rng.random() < zero_prob:
                    return {"int": 0, "float": 0.0, "complex": 0j, "bool": False}[kind]
                return self.number(kind, small=small)
            return [rec(dims[1:]) for _ in range(dims[0])]
        return rec(list(shape))

    def shape(self, maxdim=3):
        while True:
            shape = self.rng.choice(SHAPES)
            if len(shape) <= maxdim:
                return shape

    def names(self):
        return list(self.rng.choice(NAME_POOLS))

    # -- polynomial spec ---------------------------------------------------
    def poly(self, shape=None, names=None, kind=None, nterms=None, maxexp=3,
             via=None, allow_views=True, dtype=None):
        rng = self.rng
        shape = self.shape() if shape is None else tuple(shape)
        names = self.names() if names is None else list(names)
        kind = rng.choice(KINDS) if kind is None else kind
        if nterms is None:
            nterms = rng.choice([0, 1, 1, 2, 2, 3, 3, 4, 5, 6])
        rows = set()
        tries = 0
        while len(rows) < nterms and tries < 50:
            tries += 1
            row = tuple(
                rng.choice([0, 0, 1, 1, 2, maxexp]) if rng.random() < 0.8 else 0
                for _ in names
            )
            rows.add(row)
        if rng.random() < 0.5:
            rows.add(tuple(0 for _ in names))
        rows = sorted(rows)
        rng.shuffle(rows)
        if not rows:
            rows = [tuple(0 for _ in names)]
            coefs = [self.array_data(shape, kind, zero_prob=1.0)]
        else:
            coefs = [self.array_data(shape, kind, zero_prob=0.25) for _ in rows]
            if rng.random() < 0.15:  # an explicit all-zero coefficient
                coefs[rng.randrange(len(coefs))] = self.array_data(shape, kind, zero_prob=1.0)
        if via is None:
            via = rng.choice(["attrs", "attrs", "attrs", "retain"])
        spec = {
            "k": "poly", "names": names, "exps": [list(r) for r in rows],
            "coefs": nested_map(jnum, coefs), "kind": kind, "shape": list(shape), "via": via,
        }
        if dtype is not None:
            spec["dtype"] = dtype
        if allow_views and len(shape) >= 2 and rng.random() < 0.12:
            # hostile: non-contiguous transposed view of the transposed data
            spec["view"] = "T"
        return spec

    def const_operand(self, shape=None, kind=None, maxdim=3):
        """A non-polynomial operand: Python scalar, numpy scalar, list, ndarray."""
        rng = self.rng
        kind = rng.choice(KINDS) if kind is None else kind
        form = rng.choice(["py", "py", "np", "list", "arr", "arr", "arrF", "arrS", "arrRO", "arrBE"])
        if shape is None:
            shape = () if form in ("py", "np") else self.shape(maxdim)
        shape = tuple(shape)
        if form in ("py", "np") and shape:
            form = "arr"
        if form == "list" and not shape:
            form = "py"
        if form == "py":
            return {"k": "py", "v": jnum(self.number(kind))}
        if form == "np":
            dtype = {"int": rng.choice(["int64", "int32", "int16", "uint8"]),
                     "float": rng.choice(["float64", "float32"]),
                     "complex": "complex128", "bool": "bool"}[kind]
            val = self.number(kind)
            if dtype.startswith("uint"):
                val = abs(val)
            return {"k": "np", "v": jnum(val), "dtype": dtype}
        data = self.array_data(shape, kind)
        if form == "list":
            return {"k": "list", "data": nested_map(jnum, data)}
        layout = {"arr": "C", "arrF": "F", "arrS": "strided", "arrRO": "readonly",
                  "arrBE": "swapped"}[form]
        dtype = {"int": "int64", "float": "float64", "complex": "complex128", "bool": "bool"}[kind]
        return {"k": "arr", "data": nested_map(jnum, data), "dtype": dtype,
                "shape": list(shape), "layout": layout}

    def operand(self, shape=None, poly_prob=0.7, **kw):
        if self.rng.random() < poly_prob:
            return self.poly(shape=shape, **kw)
        return self.const_operand(shape=shape, kind=kw.get("kind"))

    def compatible_shape(self, shape):
        """A shape that broadcasts with ``shape`` (possibly different ndim)."""
        rng = self.rng
        shape = tuple(shape)
        choice = rng.random()
        if choice < 0.35:
            return shape
        if choice < 0.5:
            return ()
        out = []
        for dim in shape:
            out.append(dim if rng.random() < 0.6 else 1)
        cut = rng.randint(0, len(out))
        out = out[cut:]
        if rng.random() < 0.2 and len(shape) < 3:
            out = [rng.choice([1, 2])] + list(shape)
        return tuple(out)


def permute_names(spec, rng):
    """Store the indeterminates of a polynomial spec in another (rotated / shuffled) order:
    the same polynomial, names and exponent columns permuted together."""
    names = list(spec["names"])
    if spec.get("k") != "poly" or len(names) < 2:
        return spec
    order = list(range(len(names)))
    if len(names) >= 3 and rng.random() < 0.6:
        shift = rng.randrange(1, len(names))
        order = order[shift:] + order[:shift]
    else:
        while order == sorted(order):
            rng.shuffle(order)
    spec["names"] = [names[i] for i in order]
    spec["exps"] = [[row[i] for i in order] for row in spec["exps"]]
    spec["name_order"] = "permuted"
    return spec


# ---------------------------------------------------------------------------
# builders
# ---------------------------------------------------------------------------
DTYPE_OF_KIND = {"int": "int64", "float": "float64", "complex": "complex128", "bool": "bool"}


def build(spec):
    import numpoly

    kind = spec["k"]
    if kind == "py":
        return unj(spec["v"])
    if kind == "np":
        return numpy.dtype(spec["dtype"]).type(unj(spec["v"]))
    if kind == "list":
        data = unj_nested(spec["data"])
        if spec.get("tuple"):
            # the same array-like spelled as a (nested) tuple
            def freeze(x):
                return tuple(freeze(v) for v in x) if isinstance(x, list) else x
            return freeze(data)
        return data
    if kind == "arr":
        arr = numpy.array(unj_nested(spec["data"]), dtype=spec["dtype"]).reshape(spec["shape"])
        layout = spec.get("layout", "C")
        if layout == "F" and arr.ndim:
            arr = numpy.asfortranarray(arr)
        elif layout == "strided" and arr.ndim:
            big = numpy.zeros(arr.shape[:-1] + (arr.shape[-1] * 2,), dtype=arr.dtype)
            big[..., ::2] = arr
            arr = big[..., ::2]
        elif layout == "readonly":
            arr = arr.copy()
            arr.setflags(write=False)
        elif layout == "swapped" and arr.dtype.itemsize > 1:
            # the same values stored in non-native byte order
            arr = arr.astype(arr.dtype.newbyteorder(">" if arr.dtype.byteorder in ("=", "<", "|") else "<"))
        return arr
    if kind == "poly":
        dtype = spec.get("dtype") or DTYPE_OF_KIND[spec["kind"]]
        shape = tuple(spec["shape"])
        coefs = [numpy.array(unj_nested(c), dtype=dtype).reshape(shape) for c in spec["coefs"]]
        view = spec.get("view")
        if view == "T":
            coefs = [numpy.ascontiguousarray(c.T) for c in coefs]
        retain = spec.get("via") == "retain"
        exps = spec["exps"]
        if spec.get("zero_term"):
            # an explicitly stored all-zero term of the first indeterminate (kept as under
            # retain_coefficients=True), before or after the other terms; value unchanged
            extra = [spec["zero_term"]["power"]] + [0] * (len(spec["names"]) - 1)
            if extra not in [list(row) for row in exps]:
                zero = numpy.zeros(shape if view != "T" else shape[::-1], dtype=dtype)
                first = spec["zero_term"]["first"]
                exps = [extra] + list(exps) if first else list(exps) + [extra]
                coefs = [zero] + coefs if first else coefs + [zero]
                retain = True
        poly = numpoly.polynomial_from_attributes(
            exponents=numpy.array(exps, dtype=int).reshape(len(coefs), len(spec["names"])),
            coefficients=coefs,
            names=tuple(spec["names"]),
            dtype=dtype,
            retain_coefficients=True if retain else None,
            retain_names=True,
        )
        if view == "T":
            poly = poly.T
        return poly
    if kind == "plist":
        items = [build(item) for item in spec["items"]]
        return tuple(items) if spec.get("tuple") else items
    raise ValueError(kind)


def model(spec):
    """Expected model array of an operand, from the spec alone."""
    kind = spec["k"]
    if kind in ("py", "np"):
        return M.wrap(M.MP.const(unj(spec["v"])))
    if kind == "list":
        return M.wrap(numpy.array(unj_nested(spec["data"])))
    if kind == "arr":
        arr = numpy.array(unj_nested(spec["data"]), dtype=spec["dtype"]).reshape(spec["shape"])
        return M.wrap(arr)
    if kind == "poly":
        shape = tuple(spec["shape"])
        dtype = spec.get("dtype") or DTYPE_OF_KIND[spec["kind"]]
        coefs = [numpy.array(unj_nested(c), dtype=dtype).reshape(shape) for c in spec["coefs"]]
        out = numpy.empty(shape, dtype=object)
        for idx in numpy.ndindex(*shape):
            out[idx] = M.MP.from_rows(spec["names"], spec["exps"], [c[idx] for c in coefs])
        return out
    if kind == "plist":
        parts = [model(item) for item in spec["items"]]
        shape = numpy.broadcast_shapes(*[p.shape for p in parts])
        out = numpy.empty((len(parts),) + tuple(shape), dtype=object)
        for i, part in enumerate(parts):
            out[i, ...] = numpy.broadcast_to(part, shape)
        return out
    raise ValueError(kind)


def spec_features(spec):
    """Class features of an operand spec (used in signatures and facts)."""
    kind = spec["k"]
    if kind == "poly":
        return {
            "kind": "poly", "coef": spec["kind"], "shape": tuple(spec["shape"]),
            "nterms": len(spec["exps"]), "names": tuple(spec["names"]),
            "view": spec.get("view", ""), "via": spec.get("via"),
            "zero_term": bool(spec.get("zero_term")),
        }
    if kind == "arr":
        return {"kind": "arr:" + spec.get("layout", "C"), "coef": spec["dtype"],
                "shape": tuple(spec["shape"]), "nterms": 1, "names": ()}
    if kind == "list":
        return {"kind": "tuple" if spec.get("tuple") else "list", "coef": "", "shape": tuple(numpy.shape(unj_nested(spec["data"]))),
                "nterms": 1, "names": ()}
    if kind == "plist":
        return {"kind": "ptuple" if spec.get("tuple") else "plist", "coef": "",
                "shape": (len(spec["items"]),), "nterms": 2,
                "names": ()}
    return {"kind": kind, "coef": spec.get("dtype", type(unj(spec["v"])).__name__),
            "shape": (), "nterms": 1, "names": ()}


def name_relation(names1, names2):
    a, b = set(names1), set(names2)
    if not a or not b:
        return "const"
    if a == b:
        return "equal"
    if a & b:
        return "overlap"
    return "disjoint"


def spec_from_model(marr, kind="int", names=None):
    """Model array -> polynomial spec (rows = union of monomials)."""
    marr = M.wrap(marr)
    if names is None:
        names = sorted(M.all_names(marr), key=M.numsuffix) or ["q0"]
    rows = set()
    for elem in marr.ravel().tolist():
        rows |= set(elem.rows(names))
    rows = sorted(rows) or [tuple(0 for _ in names)]
    conv = {"int": lambda c: int(c[0]), "float": lambda c: float(c[0]),
            "complex": lambda c: complex(float(c[0]), float(c[1]))}[kind]
    coefs = []
    for row in rows:
        def rec(sub, row=row):
            if isinstance(sub, numpy.ndarray):
                return [rec(x) for x in sub]
            return jnum(conv(sub.rows(names).get(row, M.ZERO)))
        if marr.ndim:
            coefs.append([rec(x) for x in marr] if marr.ndim > 1 else
                         [jnum(conv(x.rows(names).get(row, M.ZERO))) for x in marr])
        else:
            coefs.append(jnum(conv(marr[()].rows(names).get(row, M.ZERO))))
    return {"k": "poly", "names": list(names), "exps": [list(r) for r in rows], "coefs": coefs,
            "kind": kind, "shape": list(marr.shape), "via": "attrs"}
