"""Shared comparison helpers between real results and the reference model."""
from __future__ import annotations

import numpy

from . import model as M
from .harness import exc_fact, tb_short


class NotNumeric(Exception):
    """A result that is neither a polynomial array nor a numeric array."""


def is_poly(obj):
    import numpoly

    return isinstance(obj, numpoly.ndpoly)


def result_model(got):
    """Model array of a real result (ndpoly, ndarray or scalar)."""
    if is_poly(got):
        return M.abstract(got)
    arr = numpy.asarray(got)
    if arr.dtype.names is not None or arr.dtype.kind not in "biufc":
        raise NotNumeric(f"{type(got).__name__} with dtype {str(arr.dtype)[:80]}")
    return M.wrap(arr)


def mismatch(got, want, rtol=None, atol=0.0):
    """None when the real result denotes ``want``; else (failure_kind, text)."""
    try:
        have = result_model(got)
    except M.Unmodelable as err:
        return ("value", f"result contains non-finite value {err}")
    except M.Malformed as err:
        return ("malformed", f"result polynomial is malformed: {err}")
    except NotNumeric as err:
        return ("type", f"result is raw storage, not a polynomial: {err}")
    except Exception as err:  # pylint: disable=broad-except
        # reading exponents / coefficients of the returned object failed
        return ("malformed", f"result cannot be read: {type(err).__name__}: {err}")
    want = M.wrap(want)
    if tuple(have.shape) != tuple(want.shape):
        return ("shape", f"result shape {tuple(have.shape)} != expected {tuple(want.shape)}")
    text = M.diff_arrays(have, want, rtol=rtol, atol=atol)
    if text is None:
        return None
    if is_poly(got):
        try:
            second = M.abstract_values(got)
            if M.diff_arrays(second, have) is not None:
                return ("representation",
                        "exponents/coefficients and raw values view disagree: " + text)
        except Exception:  # pylint: disable=broad-except
            pass
    return ("value", text)


def call_guard(func, *args, **kwargs):
    """Run func; returns (result, None) or (None, exception)."""
    try:
        return func(*args, **kwargs), None
    except Exception as err:  # pylint: disable=broad-except
        return None, err


def report_exception(ctx, facts, err, case=None, what=""):
    facts = dict(facts)
    facts["failure"] = exc_fact(err)
    ctx.violation(facts, f"{what} raised {type(err).__name__}: {err}\n{tb_short(err)}", case)
