"""Worker process: python -P -m vf.worker <prop> <spec.json> <out.json>."""
from __future__ import annotations

import faulthandler
import importlib
import json
import os
import sys


def main():
    prop, specfile, outfile = sys.argv[1:4]
    with open(specfile) as handle:
        spec = json.load(handle)
    faulthandler.enable()
    from vf.harness import Ctx

    ctx = Ctx(prop, spec, outfile)
    import numpoly
    import logging

    logging.getLogger("numpoly").setLevel(logging.ERROR)

    snapshot = os.environ.get("NUMPOLY_VERIF_SNAPSHOT", "")
    where = os.path.realpath(numpoly.__file__)
    if not snapshot or not where.startswith(os.path.realpath(snapshot) + os.sep):
        ctx.inconclusive.append(
            {"reason": f"numpoly imported from {where}, not from the snapshot {snapshot}"}
        )
        ctx.flush(finished=True)
        return 0
    module = importlib.import_module(f"vf.props.{prop.lower()}")
    try:
        module.run(spec, ctx)
    except Exception as err:  # pylint: disable=broad-except
        # an exception that escapes the whole workload: when it was raised inside the library
        # (outside any case guard) the shard reports it as a violation instead of dying
        tb, origin = err.__traceback__, ""
        while tb is not None:
            origin = tb.tb_frame.f_code.co_filename
            tb = tb.tb_next
        if not (origin.startswith(os.path.realpath(snapshot)) or
                ("/numpoly/" in origin and "/verif/" not in origin)):
            raise
        from vf.harness import exc_fact, tb_short
        ctx.violation({"op": spec.get("kind", "shard"), "failure": exc_fact(err), "unguarded": True},
                      f"the library raised outside every guarded call of the workload: "
                      f"{type(err).__name__}: {err}\n{tb_short(err, 8)}", None)
    ctx.flush(finished=True)
    return 0


if __name__ == "__main__":
    sys.exit(main())
