"""Worker process: python -P -m vf.worker <prop> <spec.json> <out.json>."""
from __future__ import annotations

import faulthandler
import importlib
import json
import os
import sys


def main():
    prop, specfile, outfile = sys.argv[1:4]
    with open(specfile) as handle:
        spec = json.load(handle)
    faulthandler.enable()
    from vf.harness import Ctx

    ctx = Ctx(prop, spec, outfile)
    import numpoly
    import logging

    logging.getLogger("numpoly").setLevel(logging.ERROR)

    snapshot = os.environ.get("NUMPOLY_VERIF_SNAPSHOT", "")
    where = os.path.realpath(numpoly.__file__)
    if not snapshot or not where.startswith(os.path.realpath(snapshot) + os.sep):
        ctx.inconclusive.append(
            {"reason": f"numpoly imported from {where}, not from the snapshot {snapshot}"}
        )
        ctx.flush(finished=True)
        return 0
    module = importlib.import_module(f"vf.props.{prop.lower()}")
    module.run(spec, ctx)
    ctx.flush(finished=True)
    return 0


if __name__ == "__main__":
    sys.exit(main())
