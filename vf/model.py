"""Exact sparse reference model of multivariate polynomial arrays.

Independent of numpoly: a model polynomial (``MP``) maps a monomial -- a
frozenset of ``(name, exponent)`` pairs with exponent > 0 -- to a non-zero
coefficient.  A coefficient is a pair ``(re, im)`` of ``fractions.Fraction``
so integer, float (converted exactly) and complex coefficients share one
arithmetic.  A model *array* is a numpy object array of ``MP`` elements; ``MP``
is deliberately neither iterable nor indexable so numpy treats it as an opaque
element, and numpy's own shape functions applied to the object array give the
expected placement of elements.
"""
from __future__ import annotations

import itertools
import math
from fractions import Fraction

import numpy

ZERO = (Fraction(0), Fraction(0))
ONE = (Fraction(1), Fraction(0))


class Unmodelable(Exception):
    """Raised when a value (NaN, inf) has no exact model."""


class Malformed(Exception):
    """A polynomial array whose attributes cannot be read as a polynomial."""


def coef(value):
    """Convert a Python/numpy number into an exact coefficient pair."""
    if isinstance(value, tuple) and len(value) == 2:
        return value
    if isinstance(value, (bool, numpy.bool_)):
        return (Fraction(int(value)), Fraction(0))
    if isinstance(value, (int, numpy.integer)):
        return (Fraction(int(value)), Fraction(0))
    if isinstance(value, Fraction):
        return (value, Fraction(0))
    if isinstance(value, (float, numpy.floating)):
        value = float(value)
        if not math.isfinite(value):
            raise Unmodelable(repr(value))
        return (Fraction(value), Fraction(0))
    if isinstance(value, (complex, numpy.complexfloating)):
        value = complex(value)
        if not (math.isfinite(value.real) and math.isfinite(value.imag)):
            raise Unmodelable(repr(value))
        return (Fraction(value.real), Fraction(value.imag))
    raise TypeError(f"no model coefficient for {type(value)}")


def c_add(a, b):
    return (a[0] + b[0], a[1] + b[1])


def c_neg(a):
    return (-a[0], -a[1])


def c_mul(a, b):
    if not a[1] and not b[1]:
        return (a[0] * b[0], Fraction(0))
    return (a[0] * b[0] - a[1] * b[1], a[0] * b[1] + a[1] * b[0])


def c_div(a, b):
    den = b[0] * b[0] + b[1] * b[1]
    return ((a[0] * b[0] + a[1] * b[1]) / den, (a[1] * b[0] - a[0] * b[1]) / den)


def c_pow(a, n):
    out = ONE
    for _ in range(n):
        out = c_mul(out, a)
    return out


def c_abs_float(a):
    return math.hypot(float(a[0]), float(a[1]))


def c_py(a):
    """Coefficient pair as a plain Python number (for messages)."""
    if a[1]:
        return complex(float(a[0]), float(a[1]))
    if a[0].denominator == 1:
        return int(a[0])
    return float(a[0])


class MP:
    """One exact sparse multivariate polynomial."""

    __slots__ = ("t",)

    def __init__(self, terms=None):
        self.t = {}
        if terms:
            for mono, value in terms.items():
                value = coef(value)
                if value != ZERO:
                    self.t[mono] = value

    # -- construction helpers --------------------------------------------
    @staticmethod
    def const(value):
        return MP({frozenset(): coef(value)})

    @staticmethod
    def var(name, power=1):
        if power == 0:
            return MP.const(1)
        return MP({frozenset({(name, int(power))}): ONE})

    @staticmethod
    def from_rows(names, exponents, coefficients):
        """Sum of coefficient * prod(name**exp); duplicate rows are added."""
        out = {}
        for row, value in zip(exponents, coefficients):
            value = coef(value)
            if value == ZERO:
                continue
            mono = frozenset((n, int(e)) for n, e in zip(names, row) if int(e))
            new = c_add(out.get(mono, ZERO), value)
            if new == ZERO:
                out.pop(mono, None)
            else:
                out[mono] = new
        res = MP()
        res.t = out
        return res

    # -- arithmetic ---------------------------------------------------------
    def __add__(self, other):
        other = as_mp(other)
        out = dict(self.t)
        for mono, value in other.t.items():
            new = c_add(out.get(mono, ZERO), value)
            if new == ZERO:
                out.pop(mono, None)
            else:
                out[mono] = new
        res = MP()
        res.t = out
        return res

    __radd__ = __add__

    def __neg__(self):
        res = MP()
        res.t = {m: c_neg(v) for m, v in self.t.items()}
        return res

    def __pos__(self):
        return self

    def __sub__(self, other):
        return self + (-as_mp(other))

    def __rsub__(self, other):
        return as_mp(other) + (-self)

    def __mul__(self, other):
        other = as_mp(other)
        out = {}
        for m1, v1 in self.t.items():
            d1 = dict(m1)
            for m2, v2 in other.t.items():
                if m2:
                    d = dict(d1)
                    for n, e in m2:
                        d[n] = d.get(n, 0) + e
                    mono = frozenset(d.items())
                else:
                    mono = m1
                new = c_add(out.get(mono, ZERO), c_mul(v1, v2))
                if new == ZERO:
                    out.pop(mono, None)
                else:
                    out[mono] = new
        res = MP()
        res.t = out
        return res

    __rmul__ = __mul__

    def __pow__(self, n):
        n = int(n)
        assert n >= 0
        out = MP.const(1)
        for _ in range(n):
            out = out * self
        return out

    def scale(self, value):
        value = coef(value)
        res = MP()
        if value != ZERO:
            res.t = {m: c_mul(v, value) for m, v in self.t.items()}
        return res

    def div_scalar(self, value):
        value = coef(value)
        res = MP()
        res.t = {m: c_div(v, value) for m, v in self.t.items()}
        return res

    # -- queries ------------------------------------------------------------
    def __eq__(self, other):
        return isinstance(other, MP) and self.t == other.t

    def __ne__(self, other):
        return not self == other

    def __hash__(self):
        return hash(frozenset(self.t.items()))

    def __bool__(self):
        return bool(self.t)

    def is_zero(self):
        return not self.t

    def is_const(self):
        return all(not m for m in self.t)

    def const_value(self):
        return self.t.get(frozenset(), ZERO)

    def names(self):
        return {n for m in self.t for n, _ in m}

    def nterms(self):
        return len(self.t)

    def degree(self, name=None):
        if name is None:
            return max((sum(e for _, e in m) for m in self.t), default=0)
        return max((dict(m).get(name, 0) for m in self.t), default=0)

    def max_abs(self):
        return max((c_abs_float(v) for v in self.t.values()), default=0.0)

    def derivative(self, name):
        out = {}
        for mono, value in self.t.items():
            d = dict(mono)
            e = d.get(name, 0)
            if not e:
                continue
            if e == 1:
                del d[name]
            else:
                d[name] = e - 1
            out[frozenset(d.items())] = c_mul(value, (Fraction(e), Fraction(0)))
        res = MP()
        res.t = out
        return res

    def subs(self, mapping):
        """Substitute ``name -> MP`` for the names in ``mapping``."""
        out = MP()
        cache = {}
        for mono, value in self.t.items():
            term = MP({frozenset(): value})
            rest = []
            for n, e in mono:
                if n in mapping:
                    key = (n, e)
                    if key not in cache:
                        cache[key] = as_mp(mapping[n]) ** e
                    term = term * cache[key]
                else:
                    rest.append((n, e))
            if rest:
                term = term * MP({frozenset(rest): ONE})
            out = out + term
        return out

    def evaluate(self, mapping):
        """Full evaluation: every name must be in mapping (numbers)."""
        total = ZERO
        for mono, value in self.t.items():
            for n, e in mono:
                value = c_mul(value, c_pow(coef(mapping[n]), e))
            total = c_add(total, value)
        return total

    def lead(self, names, graded, reverse):
        """Largest (monomial-row, coefficient) under the selected order."""
        if not self.t:
            return tuple(0 for _ in names), ZERO
        best = None
        for mono, value in self.t.items():
            d = dict(mono)
            row = tuple(d.get(n, 0) for n in names)
            key = order_key(row, graded, reverse)
            if best is None or key > best[0]:
                best = (key, row, value)
        return best[1], best[2]

    def rows(self, names):
        """Dict exponent-row -> coefficient for the given name order."""
        out = {}
        for mono, value in self.t.items():
            d = dict(mono)
            assert set(d) <= set(names), (d, names)
            out[tuple(d.get(n, 0) for n in names)] = value
        return out

    def __repr__(self):
        if not self.t:
            return "0"
        parts = []
        for mono, value in sorted(self.t.items(), key=lambda kv: sorted(kv[0])):
            mono_s = "*".join(
                f"{n}**{e}" if e != 1 else n for n, e in sorted(mono)
            )
            c = c_py(value)
            parts.append(f"{c}*{mono_s}" if mono_s else f"{c}")
        return " + ".join(parts)

    # make numpy treat MP as an opaque scalar
    def __iter__(self):
        raise TypeError("MP is not iterable")

    def __len__(self):
        raise TypeError("MP has no len")


def as_mp(value):
    if isinstance(value, MP):
        return value
    return MP.const(value)


def order_key(row, graded, reverse):
    """Sort key of an exponent row under numpoly's documented order.

    ``glexsort`` is ``numpy.lexsort`` over the indeterminates: the *last*
    indeterminate is the most significant key; ``reverse`` flips that; with
    ``graded`` the total degree dominates.
    """
    row = tuple(int(e) for e in row)
    sig = row if reverse else row[::-1]
    if graded:
        return (sum(row),) + sig
    return sig


# ---------------------------------------------------------------------------
# model arrays
# ---------------------------------------------------------------------------

def oarray(shape, fill=None):
    out = numpy.empty(shape, dtype=object)
    if fill is None:
        fill = MP()
    for idx in numpy.ndindex(*out.shape):
        out[idx] = fill
    return out


def wrap(value):
    """Re-wrap anything numpy returned into an object ndarray of MP."""
    if isinstance(value, numpy.ndarray) and value.dtype == object:
        out = value
    elif isinstance(value, MP):
        out = numpy.empty((), dtype=object)
        out[()] = value
        return out
    else:
        arr = numpy.asarray(value)
        if arr.dtype == object:
            out = arr
        else:
            out = numpy.empty(arr.shape, dtype=object)
            for idx in numpy.ndindex(*arr.shape):
                out[idx] = MP.const(arr[idx])
            return out
    # elements that numpy filled in as plain numbers (e.g. zeros of diag)
    fixed = None
    for idx in numpy.ndindex(*out.shape):
        if not isinstance(out[idx], MP):
            if fixed is None:
                fixed = out.copy()
            fixed[idx] = MP.const(out[idx])
    return out if fixed is None else fixed


def abstract(poly):
    """ndpoly -> model array, through exponents/coefficients/names/shape."""
    names = tuple(poly.names)
    exponents = [tuple(int(e) for e in row) for row in poly.exponents]
    coefficients = poly.coefficients
    shape = tuple(poly.shape)
    out = numpy.empty(shape, dtype=object)
    if not out.size:
        return out
    coefficients = [numpy.asarray(c) for c in coefficients]
    for c in coefficients:
        if c.dtype.names is not None or c.dtype.kind not in "biufc":
            raise Malformed(f"coefficient dtype {str(c.dtype)[:60]}")
        if tuple(c.shape) != shape:
            raise Malformed(f"coefficient shape {c.shape} != array shape {shape}")
    if len(exponents) != len(coefficients):
        raise Malformed(f"{len(exponents)} exponent rows, {len(coefficients)} coefficients")
    if any(len(row) != len(names) for row in exponents):
        raise Malformed(f"exponent width != number of names {names}")
    for idx in numpy.ndindex(*shape):
        out[idx] = MP.from_rows(names, exponents, [c[idx] for c in coefficients])
    return out


def abstract_values(poly, key_offset=59):
    """ndpoly -> model array through the raw structured view (second route)."""
    values = poly.values
    names = tuple(poly.names)
    shape = tuple(values.shape)
    out = numpy.empty(shape, dtype=object)
    fields = values.dtype.names
    rows = []
    for field in fields:
        row = [ord(ch) - key_offset for ch in field]
        row = row + [0] * (len(names) - len(row))
        rows.append(tuple(row))
    if not out.size:
        return out
    columns = [numpy.asarray(values[field]) for field in fields]
    for idx in numpy.ndindex(*shape):
        out[idx] = MP.from_rows(names, rows, [c[idx] for c in columns])
    return out


def to_model(value):
    """Polynomial-like (ndpoly, number, list, ndarray, MP array) -> model array."""
    import numpoly  # the snapshot under test; only used for isinstance

    if isinstance(value, numpoly.ndpoly):
        return abstract(value)
    if isinstance(value, numpy.ndarray) and value.dtype == object:
        return wrap(value)
    if isinstance(value, MP):
        return wrap(value)
    if isinstance(value, (list, tuple)):
        parts = [to_model(v) for v in value]
        shape = numpy.broadcast_shapes(*[p.shape for p in parts]) if parts else ()
        out = numpy.empty((len(parts),) + tuple(shape), dtype=object)
        for i, part in enumerate(parts):
            out[i] = numpy.broadcast_to(part, shape)
        return out
    return wrap(value)


def m_binary(op, a, b):
    a, b = wrap(a), wrap(b)
    shape = numpy.broadcast_shapes(a.shape, b.shape)
    a = numpy.broadcast_to(a, shape)
    b = numpy.broadcast_to(b, shape)
    out = numpy.empty(shape, dtype=object)
    for idx in numpy.ndindex(*shape):
        out[idx] = op(a[idx], b[idx])
    return out


def m_add(a, b):
    return m_binary(lambda x, y: x + y, a, b)


def m_sub(a, b):
    return m_binary(lambda x, y: x - y, a, b)


def m_mul(a, b):
    return m_binary(lambda x, y: x * y, a, b)


def m_neg(a):
    return m_map(lambda x: -x, a)


def m_pow(a, n):
    """Element-wise power; n is an int array (broadcasts)."""
    a = wrap(a)
    n = numpy.asarray(n)
    shape = numpy.broadcast_shapes(a.shape, n.shape)
    a = numpy.broadcast_to(a, shape)
    n = numpy.broadcast_to(n, shape)
    out = numpy.empty(shape, dtype=object)
    for idx in numpy.ndindex(*shape):
        out[idx] = a[idx] ** int(n[idx])
    return out


def m_map(func, a):
    a = wrap(a)
    out = numpy.empty(a.shape, dtype=object)
    for idx in numpy.ndindex(*a.shape):
        out[idx] = func(a[idx])
    return out


def m_sum_list(items):
    total = MP()
    for item in items:
        total = total + item
    return total


def m_prod_list(items):
    total = MP.const(1)
    for item in items:
        total = total * item
    return total


def m_reduce(func, a, axis=None, keepdims=False):
    """Fold ``func(list of MP) -> MP`` over axis/axes of a model array."""
    a = wrap(a)
    if axis is None:
        axes = tuple(range(a.ndim))
    elif isinstance(axis, (int, numpy.integer)):
        axes = (int(axis) % max(a.ndim, 1),) if a.ndim else ()
    else:
        axes = tuple(int(ax) % a.ndim for ax in axis)
    keep = [ax for ax in range(a.ndim) if ax not in axes]
    moved = numpy.transpose(a, keep + list(axes)) if a.ndim else a
    kshape = tuple(a.shape[ax] for ax in keep)
    out = numpy.empty(kshape, dtype=object)
    for idx in numpy.ndindex(*kshape):
        sub = moved[idx]
        sub = wrap(sub)
        out[idx] = func([sub[j] for j in numpy.ndindex(*sub.shape)])
    if keepdims:
        full = [1 if ax in axes else a.shape[ax] for ax in range(a.ndim)]
        out = out.reshape(full)
    return out


def equal_arrays(a, b):
    a, b = wrap(a), wrap(b)
    if a.shape != b.shape:
        return False
    return all(a[idx] == b[idx] for idx in numpy.ndindex(*a.shape))


def diff_arrays(got, want, rtol=None, atol=0.0):
    """None when equal, else a short description of the first difference.

    With ``rtol`` every coefficient may deviate by ``rtol * scale`` where
    scale is the largest coefficient magnitude of the two elements (min 1).
    """
    got, want = wrap(got), wrap(want)
    if got.shape != want.shape:
        return f"shape {got.shape} != expected {want.shape}"
    for idx in numpy.ndindex(*got.shape):
        g, w = got[idx], want[idx]
        if g == w:
            continue
        if rtol is not None:
            scale = max(1.0, g.max_abs(), w.max_abs())
            delta = g - w
            if delta.max_abs() <= rtol * scale + atol:
                continue
        return f"element {idx}: got {short(g)} expected {short(w)}"
    return None


def short(mp, limit=200):
    text = repr(mp)
    return text if len(text) <= limit else text[:limit] + "..."


def describe(arr, limit=400):
    arr = wrap(arr)
    text = repr([repr(x) for x in arr.ravel().tolist()])
    return f"shape={arr.shape} " + (text if len(text) <= limit else text[:limit] + "...")


def all_names(arr):
    out = set()
    for x in wrap(arr).ravel().tolist():
        out |= x.names()
    return out


def numsuffix(name):
    digits = "".join(ch for ch in name if ch.isdigit())
    return int(digits or 0)
