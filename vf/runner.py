"""Parent process: snapshot, sharding, subprocess workers, merge, evidence, verdict."""
from __future__ import annotations

import argparse
import glob
import importlib
import json
import os
import re
import shutil
import subprocess
import sys
import tempfile
import threading
import time
from concurrent.futures import ThreadPoolExecutor

from . import build, findings
from .harness import _default

VERIF = build.VERIF
EVIDENCE = os.path.join(VERIF, "evidence")
MAX_RESTARTS = 40


def parse_args(argv):
    parser = argparse.ArgumentParser(prog="check")
    parser.add_argument("prop")
    parser.add_argument("--tier", default=os.environ.get("VERIF_TIER", "quick"),
                        choices=["quick", "thorough"])
    parser.add_argument("--seed", type=int,
                        default=int(os.environ.get("VERIF_SEED", "0") or 0))
    parser.add_argument("--replay")
    parser.add_argument("--repo", default="/repo")
    parser.add_argument("--jobs", type=int, default=min(16, os.cpu_count() or 4))
    parser.add_argument("--keep", action="store_true")
    parser.add_argument("--no-evidence", action="store_true",
                        help="do not rewrite evidence (used for mutant runs)")
    return parser.parse_args(argv)


class ShardRun:
    def __init__(self, prop, module, spec, snapshots, workdir, timeout):
        self.prop = prop
        self.module = module
        self.spec = spec
        self.snapshots = snapshots
        self.workdir = workdir
        self.timeout = timeout
        self.results = []
        self.crash_violations = []
        self.inconclusive = []
        self.san_reports = []

    def run(self):
        spec = dict(self.spec)
        restarts = 0
        deadline = time.time() + self.timeout
        while True:
            tag = f"{spec['shard']}-{restarts}"
            specfile = os.path.join(self.workdir, f"spec-{tag}.json")
            outfile = os.path.join(self.workdir, f"out-{tag}.json")
            with open(specfile, "w") as handle:
                json.dump(spec, handle)
            flavour = spec.get("flavour", "plain")
            logdir = os.path.join(self.workdir, f"logs-{tag}")
            os.makedirs(logdir, exist_ok=True)
            env = build.worker_env(self.snapshots[flavour], flavour, logdir,
                                   extra=spec.get("env"))
            remaining = deadline - time.time()
            if remaining <= 0:
                self.inconclusive.append({"reason": "shard watchdog fired", "shard": spec["shard"]})
                return
            try:
                proc = subprocess.run(
                    [build.PYTHON, "-P", "-m", "vf.worker", self.prop, specfile, outfile],
                    env=env, cwd=self.workdir, capture_output=True, text=True,
                    timeout=remaining,
                )
                rc, err = proc.returncode, proc.stderr
            except subprocess.TimeoutExpired:
                self.inconclusive.append({"reason": "shard watchdog fired", "shard": spec["shard"]})
                self._collect(outfile)
                return
            result = self._collect(outfile)
            if flavour == "asan":
                self.san_reports += parse_sanitizer_logs(logdir)
            if result is not None and result.get("finished"):
                return
            # the worker died before finishing: attribute to the write-ahead case
            cur = None
            try:
                with open(outfile + ".cur") as handle:
                    cur = json.load(handle)
            except (OSError, ValueError):
                pass
            if rc is not None and rc < 0:
                kind = f"crash:signal{-rc}"
            elif re.search(r"(Fatal Python error|Segmentation fault|Aborted|corrupted|malloc)", err or ""):
                kind = "crash:abort"
            else:
                # a Python-level error in the harness itself: not a verdict
                self.inconclusive.append(
                    {"reason": "worker error", "shard": spec["shard"],
                     "stderr": (err or "")[-1500:], "rc": rc}
                )
                return
            if cur is None:
                self.inconclusive.append(
                    {"reason": f"{kind} before the first case", "shard": spec["shard"],
                     "stderr": (err or "")[-800:]}
                )
                return
            facts = {"failure": kind}
            facts_of = getattr(self.module, "facts_of_case", None)
            if facts_of is not None:
                try:
                    facts.update(facts_of(cur["case"]))
                except Exception:  # pylint: disable=broad-except
                    pass
            self.crash_violations.append(
                {"facts": facts, "detail": (err or "")[-800:], "case": cur["case"],
                 "index": cur["index"], "shard": spec["shard"]}
            )
            restarts += 1
            if restarts > MAX_RESTARTS or "replay_case" in spec:
                if "replay_case" not in spec:
                    self.inconclusive.append(
                        {"reason": "too many worker crashes", "shard": spec["shard"]})
                return
            spec["skip_until"] = cur["index"] + 1

    def _collect(self, outfile):
        try:
            with open(outfile) as handle:
                result = json.load(handle)
        except (OSError, ValueError):
            return None
        self.results.append(result)
        return result


SAN_HEAD = re.compile(
    r"(ERROR: AddressSanitizer: (?P<asan>[\w-]+))|(runtime error: (?P<ubsan>.*))")


def parse_sanitizer_logs(logdir):
    reports = []
    for path in sorted(glob.glob(os.path.join(logdir, "asan*"))):
        with open(path, errors="replace") as handle:
            text = handle.read()
        blocks = re.split(r"(?m)^(?==+\d+==ERROR|.*runtime error:)", text)
        for block in blocks:
            match = SAN_HEAD.search(block)
            if not match:
                continue
            if match.group("asan"):
                kind = "asan:" + match.group("asan")
            else:
                msg = match.group("ubsan")
                kind = "ubsan:" + re.sub(r"0x[0-9a-f]+|\d+", "N", msg)[:60].strip()
            sym = "?"
            for frame in re.finditer(r"#\d+ 0x[0-9a-f]+ in (\S+)", block):
                name = frame.group(1)
                if "__pyx" in name or "numpoly" in name:
                    sym = re.sub(r"^__pyx_\w*?_7numpoly_10cfunctions_\d+\w*?_", "", name)
                    sym = name
                    break
            reports.append({"kind": kind, "symbol": sym, "text": block[:1500]})
    return reports


def merge(shard_runs):
    total = {
        "evaluations": 0, "signatures": set(), "counters": {}, "samples": [],
        "violations": [], "viol_counts": {}, "inconclusive": [], "notes": set(),
        "cases_done": 0, "san_reports": [], "distinct_extra": 0,
    }
    for run in shard_runs:
        for res in run.results:
            total["evaluations"] += res["evaluations"]
            total["signatures"].update(res["signatures"])
            total["distinct_extra"] += res.get("distinct_extra", 0)
            for key, val in res["counters"].items():
                total["counters"][key] = total["counters"].get(key, 0) + val
            for sample in res["samples"]:
                if len(total["samples"]) < 8:
                    total["samples"].append(sample)
            for viol in res["violations"]:
                viol["spec"] = run.spec
            total["violations"] += res["violations"]
            for key, val in res["viol_counts"].items():
                total["viol_counts"][key] = total["viol_counts"].get(key, 0) + val
            total["inconclusive"] += res["inconclusive"]
            total["notes"].update(res["notes"])
            total["cases_done"] += res["cases_done"]
        for viol in run.crash_violations:
            viol["spec"] = run.spec
        total["violations"] += run.crash_violations
        for viol in run.crash_violations:
            key = json.dumps(viol["facts"], sort_keys=True)
            total["viol_counts"][key] = total["viol_counts"].get(key, 0) + 1
        total["inconclusive"] += run.inconclusive
        for rep in run.san_reports:
            total["san_reports"].append(rep)
            facts = {"failure": f"{rep['kind']}:{rep['symbol']}", "op": "native"}
            total["violations"].append(
                {"facts": facts, "detail": rep["text"], "case": run.spec,
                 "index": -1, "shard": run.spec["shard"]})
            key = json.dumps(facts, sort_keys=True)
            total["viol_counts"][key] = total["viol_counts"].get(key, 0) + 1
    return total


def main(argv=None):
    args = parse_args(argv if argv is not None else sys.argv[1:])
    prop = args.prop.upper()
    started = time.time()
    os.makedirs(os.path.join(EVIDENCE, "replay"), exist_ok=True)
    workdir = tempfile.mkdtemp(prefix=f"numpoly-verif-run-{prop}-")
    snapshots = {}
    status = 3
    try:
        try:
            snapshots["plain"], notes = build.make_snapshot(args.repo, "plain")
        except build.BuildInconclusive as exc:
            print(f"INCONCLUSIVE property={prop} reason=build: {exc}")
            return 3
        sys.path.insert(0, snapshots["plain"])
        module = importlib.import_module(f"vf.props.{prop.lower()}")
        replay = None
        if args.replay:
            with open(args.replay) as handle:
                replay = json.load(handle)
            spec = dict(replay.get("spec") or {})
            spec.update({"shard": 0, "tier": replay.get("tier", args.tier),
                         "seed": replay.get("seed", args.seed)})
            if replay.get("case") is not None and replay.get("index", -1) >= 0:
                spec["replay_case"] = replay["case"]
            spec.pop("skip_until", None)
            shards = [spec]
            tier, seed = spec["tier"], spec["seed"]
        else:
            tier, seed = args.tier, args.seed
            shards = module.shards(tier, seed)
            for i, spec in enumerate(shards):
                spec.setdefault("shard", i)
                spec["tier"] = tier
                spec["seed"] = seed
        if any(spec.get("flavour") == "asan" for spec in shards):
            try:
                snapshots["asan"], _ = build.make_snapshot(args.repo, "asan")
            except build.BuildInconclusive as exc:
                print(f"INCONCLUSIVE property={prop} reason=asan build: {exc}")
                return 3
        timeout = getattr(module, "SHARD_TIMEOUT", {"quick": 900, "thorough": 7200})[tier]
        runs = [ShardRun(prop, module, spec, snapshots, workdir, timeout) for spec in shards]
        with ThreadPoolExecutor(max(1, args.jobs)) as pool:
            list(pool.map(lambda r: r.run(), runs))
        total = merge(runs)
        status = conclude(prop, module, tier, seed, total, notes, started, args, replay)
        return status
    finally:
        for snap in snapshots.values():
            shutil.rmtree(snap, ignore_errors=True)
        if args.keep:
            print("workdir kept:", workdir)
        else:
            shutil.rmtree(workdir, ignore_errors=True)


def conclude(prop, module, tier, seed, total, notes, started, args, replay):
    entries = findings.load()
    matched = {}
    unmatched = []
    for viol in total["violations"]:
        entry = findings.classify(prop, viol["facts"], entries)
        if entry is not None:
            matched.setdefault(entry["id"], {"entry": entry, "count": 0, "example": viol})
        else:
            unmatched.append(viol)
    # counts (viol_counts holds the uncapped numbers)
    n_matched = 0
    n_unmatched = 0
    for key, count in total["viol_counts"].items():
        facts = json.loads(key)
        entry = findings.classify(prop, facts, entries)
        if entry is not None:
            matched.setdefault(entry["id"], {"entry": entry, "count": 0, "example": None})
            matched[entry["id"]]["count"] += count
            n_matched += count
        else:
            n_unmatched += count

    meta = getattr(module, "META", {})
    min_eval = meta.get("min_evaluations", {}).get(tier, 1)
    required = meta.get("required_counters", [])
    inconclusive = list(total["inconclusive"])
    # single cases cut by the wall-clock case watchdog (a loaded machine, a heavy borrowed
    # workload case) are not part of what was observed; a handful of them does not make the whole
    # run inconclusive, they are reported in the evidence and on stdout instead
    cut = [i for i in inconclusive if i.get("reason") == "case watchdog fired"]
    cut_limit = max(2, int(total.get("cases_done", 0) * 0.001))
    if cut and len(cut) <= cut_limit and not replay:
        inconclusive = [i for i in inconclusive if i.get("reason") != "case watchdog fired"]
        total["counters"]["cases_cut_by_watchdog"] = len(cut)
        print(f"[{prop}] note: {len(cut)} case(s) cut by the case watchdog are not part of what was "
              f"observed (limit {cut_limit})")
    if total["evaluations"] < min_eval and not replay:
        inconclusive.append(
            {"reason": f"deciding monitor made {total['evaluations']} evaluations (< {min_eval})"})
    for name in required:
        if not total["counters"].get(name) and not replay:
            inconclusive.append({"reason": f"monitor counter '{name}' is zero: never reached"})

    replay_paths = []
    for n, viol in enumerate(unmatched[:10]):
        path = os.path.join(EVIDENCE, "replay", f"{prop}-{seed}-{n}.json")
        spec = {k: v for k, v in (viol.get("spec") or {}).items()}
        shard_spec = None
        if isinstance(viol.get("case"), dict) and viol.get("index", -1) < 0:
            shard_spec = viol["case"]
        with open(path, "w") as handle:
            json.dump({"property": prop, "tier": tier, "seed": seed,
                       "shard": viol.get("shard"), "index": viol.get("index"),
                       "facts": viol["facts"], "detail": viol["detail"],
                       "case": viol.get("case"),
                       "spec": shard_spec if shard_spec else spec},
                      handle, indent=1, default=_default)
        replay_paths.append(path)

    wall = time.time() - started
    coverage = {
        "evaluations": total["evaluations"],
        "distinct_nontrivial": len(total["signatures"]) + total["distinct_extra"],
        "rule": meta.get("rule", ""),
        "samples": total["samples"][:8],
        "cases": total["cases_done"],
        "monitors": {k: total["counters"][k] for k in sorted(total["counters"])},
        "known_findings_matched": {k: v["count"] for k, v in matched.items()},
        "inconclusive": [i.get("reason") for i in inconclusive][:10],
        "sanitizer_reports": len(total["san_reports"]),
    }
    if meta.get("exhaustive", {}).get(tier):
        coverage["exhaustive"] = True
        coverage["exhaustive_scope"] = meta["exhaustive"][tier]
    evidence = {
        "property_id": prop, "tier": tier, "seed": seed,
        "level": meta.get("level", "exploration"),
        "coverage": coverage,
        "assumptions": list(meta.get("assumptions", [])) + sorted(total["notes"]) + list(notes),
        "wall_s": round(wall, 2),
        "violations": n_unmatched,
        "verdict": ("violated" if unmatched else
                    "inconclusive" if inconclusive else "held on what was observed"),
    }
    if not args.no_evidence and not replay:
        path = os.path.join(EVIDENCE, f"{prop}.json")
        tmp = path + ".tmp"
        with open(tmp, "w") as handle:
            json.dump(evidence, handle, indent=1, default=_default)
        os.replace(tmp, path)

    print(f"[{prop}] tier={tier} seed={seed} cases={total['cases_done']} "
          f"evaluations={total['evaluations']} distinct_nontrivial={len(total['signatures']) + total['distinct_extra']} "
          f"wall={wall:.1f}s")
    for key in sorted(total["counters"]):
        print(f"    {key} = {total['counters'][key]}")
    for ident, info in sorted(matched.items()):
        print(f"KNOWN-FINDING: property={prop} {info['entry']['what']} "
              f"[{ident}; {info['count']} occurrences]")
    if unmatched:
        for viol, path in zip(unmatched, replay_paths):
            print(f"VIOLATION property={prop} replay={path}")
            print(f"    facts={json.dumps(viol['facts'], default=_default)}")
            print("    " + viol["detail"].replace("\n", "\n    ")[:700])
        print(f"[{prop}] {n_unmatched} violation(s) in "
              f"{len([k for k in total['viol_counts'] if findings.classify(prop, json.loads(k), entries) is None])} fact classes")
        return 1
    if inconclusive:
        for item in inconclusive[:5]:
            print(f"INCONCLUSIVE property={prop} reason={json.dumps(item, default=_default)[:600]}")
        return 3
    print(f"[{prop}] held on everything observed")
    return 0
