"""Operation catalogue: argument generators, real calls and model expectations.

Each entry describes one public callable: how to generate valid arguments
(JSON-serialisable), how to call it in a given namespace (``numpoly`` or
``numpy``; optionally as method), and what the exact model expects.  The
expectation for shape functions is *numpy itself applied to an object array of
opaque model polynomials*; for reductions it is a fold of model ``+``/``*``.
The catalogue is shared by the checks of C03, C08, C09, C10, C11, C12, C15, C17.
"""
from __future__ import annotations

import itertools

import numpy

from . import gen as G
from . import model as M

OPS = {}


class Op:
    def __init__(self, name, group, gen, call, model, method=None, result="poly",
                 npname=None, constant_ok=True, tol=False):
        self.name = name
        self.group = group
        self.gen = gen
        self.call = call
        self.model = model
        self.method = method
        self.result = result
        self.npname = npname or name
        self.constant_ok = constant_ok
        self.tol = tol
        OPS[name] = self


# ---------------------------------------------------------------------------
# index encoding (JSON <-> python index expressions)
# ---------------------------------------------------------------------------

def enc_index(item):
    if isinstance(item, tuple):
        return {"t": "tuple", "v": [enc_index(x) for x in item]}
    if isinstance(item, slice):
        return {"t": "slice", "v": [item.start, item.stop, item.step]}
    if item is Ellipsis:
        return {"t": "ellipsis"}
    if item is None:
        return {"t": "none"}
    if isinstance(item, (int, numpy.integer)):
        return {"t": "int", "v": int(item)}
    if isinstance(item, numpy.ndarray):
        return {"t": "arr", "v": item.tolist(), "dtype": str(item.dtype)}
    if isinstance(item, list):
        return {"t": "list", "v": item}
    raise TypeError(item)


def dec_index(item):
    kind = item["t"]
    if kind == "tuple":
        return tuple(dec_index(x) for x in item["v"])
    if kind == "slice":
        return slice(*item["v"])
    if kind == "ellipsis":
        return Ellipsis
    if kind == "none":
        return None
    if kind == "int":
        return item["v"]
    if kind == "arr":
        return numpy.array(item["v"], dtype=item["dtype"])
    if kind == "list":
        return item["v"]
    raise TypeError(item)


def gen_index(g, shape):
    """A valid index expression for an array of the given shape."""
    rng = g.rng
    ndim = len(shape)
    style = rng.choice(["basic", "basic", "basic", "adv", "bool", "mixed", "ell", "none", "sepadv",
                        "sepadv"])
    if ndim == 0:
        return rng.choice([(), Ellipsis, None, (None,), (Ellipsis, None)])

    def basic(dim):
        roll = rng.random()
        if roll < 0.35:
            return rng.randrange(-dim, dim)
        if roll < 0.5:
            return slice(None)
        start = rng.choice([None, 0, 1, -1, -dim])
        stop = rng.choice([None, dim, -1, 1, 0])
        step = rng.choice([None, 1, 2, -1, -2])
        return slice(start, stop, step)

    if style == "basic":
        count = rng.randint(1, ndim)
        out = tuple(basic(shape[i]) for i in range(count))
        return out[0] if count == 1 and rng.random() < 0.5 else out
    if style == "adv":
        dim = shape[0]
        idx = [rng.randrange(-dim, dim) for _ in range(rng.randint(1, 4))]
        if rng.random() < 0.5:
            return idx
        rest = tuple(basic(shape[i]) for i in range(1, rng.randint(1, ndim)))
        if rest and all(isinstance(r, int) for r in rest) is False:
            return (numpy.array(idx),) + rest
        return numpy.array(idx)
    if style == "bool":
        if rng.random() < 0.5:
            mask = numpy.array([rng.random() < 0.5 for _ in range(shape[0])], dtype=bool)
        else:
            mask = numpy.array(
                [rng.random() < 0.5 for _ in range(int(numpy.prod(shape)))], dtype=bool
            ).reshape(shape)
        return mask
    if style == "mixed" and ndim >= 2:
        rows = [rng.randrange(shape[0]) for _ in range(2)]
        cols = [rng.randrange(shape[1]) for _ in range(2)]
        return (numpy.array(rows), numpy.array(cols))
    if style == "sepadv" and ndim >= 3:
        # advanced indices separated by a slice: numpy moves the broadcast axes first
        count = rng.randint(1, 3)
        first = [rng.randrange(shape[0]) for _ in range(count)]
        last = [rng.randrange(shape[2]) for _ in range(count)]
        middle = rng.choice([slice(None), slice(0, shape[1]), slice(None, None, -1)])
        form = rng.choice(["lists", "int_first", "int_last", "arrays"])
        if form == "lists":
            return (first, middle, last)
        if form == "int_first":
            return (first[0], middle, last)
        if form == "int_last":
            return (first, middle, last[0])
        return (numpy.array(first), middle, numpy.array(last))
    if style == "sepadv" and ndim == 2:
        rows = [rng.randrange(shape[0]) for _ in range(rng.randint(1, 3))]
        return (rows, slice(None, None, rng.choice([1, -1])))
    if style == "ell":
        return (Ellipsis, basic(shape[-1]))
    if style == "none":
        return (None, basic(shape[0]))
    return basic(shape[0])


# ---------------------------------------------------------------------------
# helpers for generators
# ---------------------------------------------------------------------------

def nd_shape(g, mindim=0, maxdim=3, minsize=0):
    pool = [s for s in G.SHAPES + [(4,), (3, 2), (1, 1), (2, 2, 2), (1, 4), (4, 1)]
            if mindim <= len(s) <= maxdim]
    return g.rng.choice(pool)


def axis_of(g, ndim, allow_none=False, negative=True):
    choices = list(range(ndim))
    if negative:
        choices += list(range(-ndim, 0))
    if allow_none:
        choices += [None]
    return g.rng.choice(choices) if choices else None


def poly_of(g, shape, **kw):
    return g.poly(shape=shape, **kw)


def same_family(g, count, shapes, kind=None):
    """Polynomials with differing name / term sets (for joins)."""
    kind = kind or g.rng.choice(G.KINDS)
    mixed = g.rng.random() < 0.3  # operands of different coefficient kinds (narrower first or last)
    out = []
    for i in range(count):
        k = g.rng.choice(["int", "float", "complex"]) if mixed else kind
        if g.rng.random() < 0.25:
            out.append(g.const_operand(shape=shapes[i], kind=k))
        else:
            out.append(g.poly(shape=shapes[i], kind=k))
    if all(o["k"] != "poly" for o in out):
        out[0] = g.poly(shape=shapes[0], kind=kind)
    return out


def first(ops):
    return ops[0]


def kwget(kw, *names):
    return {n: _dec(kw[n]) for n in names if n in kw}


def _dec(value):
    if isinstance(value, list):
        return tuple(value) if all(isinstance(v, int) for v in value) else value
    return value


def seq_arg(kw, name):
    """An integer-sequence argument in the spelling the case asks for: tuple, or integer ndarray
    (which the callee could overwrite in place)."""
    value = kw[name]
    if isinstance(value, list) and kw.get("seq_as_array") and all(isinstance(v, int) for v in value):
        return numpy.array(value, dtype=int)
    return _dec(value)


def np_on_objects(func):
    """Model via numpy itself on object arrays of opaque model elements."""
    def model(mods, kw):
        return func(numpy, mods, kw)
    return model


# ---------------------------------------------------------------------------
# C09: shape functions
# ---------------------------------------------------------------------------

def _gen_reshape(g):
    shape = nd_shape(g)
    size = int(numpy.prod(shape))
    options = [(size,), (-1,), (1, size), (size, 1)]
    for a in range(1, size + 1):
        if size % a == 0:
            options.append((a, size // a))
            options.append((a, -1))
    if size % 2 == 0:
        options.append((2, 1, size // 2))
    new = g.rng.choice(options)
    kw = {"shape": list(new)}
    if g.rng.random() < 0.3:
        kw["order"] = g.rng.choice(["C", "F", "A", "A"])
    if len(new) == 1 and g.rng.random() < 0.3:
        kw["shape"] = new[0]
    operand = poly_of(g, shape)
    if kw.get("order") == "A":
        # numpy reads in Fortran order iff the array is Fortran- and not C-contiguous; the model
        # array has no memory layout of its own, so the effective order is recorded with the case
        dummy = numpy.zeros(tuple(shape)[::-1]).T if operand.get("view") == "T" else numpy.zeros(shape)
        kw["order_effective"] = "F" if dummy.flags.f_contiguous and not dummy.flags.c_contiguous \
            else "C"
    return {"operands": [operand], "kw": kw}


def _shape_arg(kw):
    shape = kw["shape"]
    return tuple(shape) if isinstance(shape, list) else shape


Op("reshape", "shape", _gen_reshape,
   lambda ns, ops, kw: ns.reshape(ops[0], _shape_arg(kw), **kwget(kw, "order")),
   np_on_objects(lambda np_, m, kw: np_.reshape(
       m[0], _shape_arg(kw), **({"order": kw.get("order_effective", kw["order"])} if "order" in kw else {}))),
   method=lambda ops, kw: ops[0].reshape(_shape_arg(kw), **kwget(kw, "order")))


def _gen_transpose(g):
    shape = nd_shape(g)
    kw = {}
    if shape and g.rng.random() < 0.6:
        axes = list(range(len(shape)))
        g.rng.shuffle(axes)
        if g.rng.random() < 0.3:
            axes = [ax - len(shape) if g.rng.random() < 0.5 else ax for ax in axes]
        kw["axes"] = axes
        if g.rng.random() < 0.3:
            kw["seq_as_array"] = True
    return {"operands": [poly_of(g, shape)], "kw": kw}


def _axes_kw(kw):
    return {"axes": seq_arg(kw, "axes")} if "axes" in kw else {}


Op("transpose", "shape", _gen_transpose,
   lambda ns, ops, kw: ns.transpose(ops[0], **_axes_kw(kw)),
   np_on_objects(lambda np_, m, kw: np_.transpose(m[0], **kwget(kw, "axes"))),
   method=lambda ops, kw: ops[0].transpose(*([_axes_kw(kw)["axes"]] if "axes" in kw else [])))


def _gen_moveaxis(g):
    shape = nd_shape(g, mindim=1)
    ndim = len(shape)
    if g.rng.random() < 0.6:
        kw = {"source": axis_of(g, ndim), "destination": axis_of(g, ndim)}
    else:
        count = g.rng.randint(1, ndim)
        kw = {"source": [ax - ndim if g.rng.random() < 0.3 else ax
                         for ax in g.rng.sample(range(ndim), count)],
              "destination": g.rng.sample(range(ndim), count)}
        if g.rng.random() < 0.3:
            kw["seq_as_array"] = True
    return {"operands": [poly_of(g, shape)], "kw": kw}


Op("moveaxis", "shape", _gen_moveaxis,
   lambda ns, ops, kw: ns.moveaxis(ops[0], seq_arg(kw, "source"), seq_arg(kw, "destination")),
   np_on_objects(lambda np_, m, kw: np_.moveaxis(m[0], kw["source"], kw["destination"])))


def _gen_expand_dims(g):
    shape = nd_shape(g, maxdim=2)
    return {"operands": [poly_of(g, shape)],
            "kw": {"axis": g.rng.randrange(-len(shape) - 1, len(shape) + 1)}}


Op("expand_dims", "shape", _gen_expand_dims,
   lambda ns, ops, kw: ns.expand_dims(ops[0], kw["axis"]),
   np_on_objects(lambda np_, m, kw: np_.expand_dims(m[0], kw["axis"])))

for _name in ("atleast_1d", "atleast_2d", "atleast_3d"):
    Op(_name, "shape",
       lambda g: {"operands": [poly_of(g, nd_shape(g))], "kw": {}},
       (lambda n: lambda ns, ops, kw: getattr(ns, n)(ops[0]))(_name),
       np_on_objects((lambda n: lambda np_, m, kw: getattr(np_, n)(m[0]))(_name)))


def _gen_repeat(g):
    shape = nd_shape(g)
    kw = {}
    ndim = len(shape)
    if ndim and g.rng.random() < 0.7:
        axis = axis_of(g, ndim)
        kw["axis"] = axis
        if g.rng.random() < 0.5:
            kw["repeats"] = g.rng.choice([0, 1, 2, 3])
        else:
            kw["repeats"] = [g.rng.choice([0, 1, 2]) for _ in range(shape[axis])]
    else:
        if g.rng.random() < 0.7:
            kw["repeats"] = g.rng.choice([1, 2, 3])
        else:
            kw["repeats"] = [g.rng.choice([0, 1, 2]) for _ in range(int(numpy.prod(shape)))]
        if g.rng.random() < 0.3:
            kw["axis"] = None
    if isinstance(kw["repeats"], list) and g.rng.random() < 0.3:
        kw["seq_as_array"] = True
    return {"operands": [poly_of(g, shape)], "kw": kw}


def _repeat_kw(kw):
    out = {"repeats": seq_arg(kw, "repeats")}
    if "axis" in kw:
        out["axis"] = kw["axis"]
    return out


Op("repeat", "shape", _gen_repeat,
   lambda ns, ops, kw: ns.repeat(ops[0], **_repeat_kw(kw)),
   np_on_objects(lambda np_, m, kw: np_.repeat(m[0], **_repeat_kw(kw))))


def _gen_tile(g):
    shape = nd_shape(g, maxdim=2)
    reps = g.rng.choice([1, 2, 3, [2], [1, 2], [2, 1], [2, 2], [1, 1, 2], [2, 1, 1], 0,
                         [1], [1, 1], [1, 1, 1], [1, 1, 1, 1]])
    kw = {"reps": reps}
    if isinstance(reps, list) and g.rng.random() < 0.3:
        kw["seq_as_array"] = True
    return {"operands": [poly_of(g, shape)], "kw": kw}


Op("tile", "shape", _gen_tile,
   lambda ns, ops, kw: ns.tile(ops[0], seq_arg(kw, "reps")),
   np_on_objects(lambda np_, m, kw: np_.tile(m[0], _dec(kw["reps"]))))


def _gen_concatenate(g):
    shape = list(nd_shape(g, mindim=1))
    axis = axis_of(g, len(shape))
    count = g.rng.randint(1, 3)
    shapes = []
    for _ in range(count):
        s = list(shape)
        s[axis] = g.rng.choice([1, 2, 3, shape[axis]])
        shapes.append(tuple(s))
    if g.rng.random() < 0.12:
        axis = None  # numpy flattens every operand first (also a single one)
    return {"operands": same_family(g, count, shapes), "kw": {"axis": axis}}


Op("concatenate", "join", _gen_concatenate,
   lambda ns, ops, kw: ns.concatenate(list(ops), axis=kw["axis"]),
   np_on_objects(lambda np_, m, kw: np_.concatenate(list(m), axis=kw["axis"])))


def _gen_stack(g):
    shape = nd_shape(g, maxdim=2)
    count = g.rng.randint(1, 3)
    axis = g.rng.randrange(-len(shape) - 1, len(shape) + 1)
    return {"operands": same_family(g, count, [shape] * count), "kw": {"axis": axis}}


Op("stack", "join", _gen_stack,
   lambda ns, ops, kw: ns.stack(list(ops), axis=kw["axis"]),
   np_on_objects(lambda np_, m, kw: np_.stack(list(m), axis=kw["axis"])))


def _stack_out_call(ns, ops, kw):
    """stack into an explicit output polynomial that has storage for every term of the result."""
    import numpoly

    ref = numpoly.stack(list(ops), axis=kw["axis"])
    out = numpoly.polynomial_from_attributes(
        ref.exponents, [numpy.zeros(ref.shape, dtype=ref.dtype)] * len(ref.exponents),
        names=ref.names, dtype=ref.dtype, retain_coefficients=True, retain_names=True)
    res = ns.stack(list(ops), axis=kw["axis"], out=out)
    return [out if res is None else res, out]


_stack_model = np_on_objects(lambda np_, m, kw: np_.stack(list(m), axis=kw["axis"]))
Op("stack_out", "join", _gen_stack, _stack_out_call,
   lambda mods, kw: [_stack_model(mods, kw)] * 2, result="polylist", npname="stack")


def _gen_xstack(which):
    def gen(g):
        count = g.rng.randint(1, 3)
        shape = list(nd_shape(g, maxdim=3))
        shapes = []
        ndim = len(shape)
        free = {"hstack": 0 if ndim == 1 else 1, "vstack": 0, "dstack": 2}[which]
        for _ in range(count):
            s = list(shape)
            if ndim > free and not (which == "vstack" and ndim == 1) and \
                    not (which == "dstack" and ndim < 3):
                s[free] = g.rng.choice([1, 2, shape[free]])
            shapes.append(tuple(s))
        return {"operands": same_family(g, count, shapes), "kw": {}}
    return gen


for _name in ("hstack", "vstack", "dstack"):
    Op(_name, "join", _gen_xstack(_name),
       (lambda n: lambda ns, ops, kw: getattr(ns, n)(list(ops)))(_name),
       np_on_objects((lambda n: lambda np_, m, kw: getattr(np_, n)(list(m)))(_name)))


def _gen_split(which):
    def gen(g):
        mindim = {"split": 1, "array_split": 1, "hsplit": 1, "vsplit": 2, "dsplit": 3}[which]
        shape = nd_shape(g, mindim=mindim)
        ndim = len(shape)
        if which in ("split", "array_split"):
            axis = axis_of(g, ndim)
        elif which == "hsplit":
            axis = 0 if ndim == 1 else 1
        elif which == "vsplit":
            axis = 0
        else:
            axis = 2
        dim = shape[axis]
        if g.rng.random() < 0.5:
            if which == "array_split":
                sections = g.rng.randint(1, dim + 1)
            else:
                sections = g.rng.choice([d for d in range(1, dim + 1) if dim % d == 0])
        else:
            sections = sorted(g.rng.randint(0, dim) for _ in range(g.rng.randint(1, 2)))
        kw = {"ios": sections}
        if which in ("split", "array_split"):
            kw["axis"] = axis
        return {"operands": [poly_of(g, shape)], "kw": kw}
    return gen


def _split_call(name):
    def call(ns, ops, kw):
        func = getattr(ns, name)
        if "axis" in kw:
            return func(ops[0], kw["ios"], axis=kw["axis"])
        return func(ops[0], kw["ios"])
    return call


for _name in ("split", "array_split", "hsplit", "vsplit", "dsplit"):
    Op(_name, "split", _gen_split(_name), _split_call(_name),
       (lambda n: lambda mods, kw: _split_call(n)(numpy, mods, kw))(_name),
       result="polylist")


def _gen_diag(g):
    if g.rng.random() < 0.5:
        shape = g.rng.choice([(1,), (2,), (3,), (4,)])
    else:
        shape = g.rng.choice([(1, 1), (1, 3), (3, 1), (2, 2), (2, 3), (3, 3), (1, 4)])
    return {"operands": [poly_of(g, shape)], "kw": {"k": g.rng.choice([0, 0, 1, -1, 2, -2])}}


def _diag_model(mods, kw):
    out = numpy.diag(mods[0], k=kw["k"])
    return M.wrap(out)


Op("diag", "shape", _gen_diag,
   lambda ns, ops, kw: ns.diag(ops[0], k=kw["k"]), _diag_model)


def _gen_diagonal(g):
    shape = nd_shape(g, mindim=2)
    ndim = len(shape)
    axis1, axis2 = g.rng.sample(range(ndim), 2)
    if g.rng.random() < 0.5:
        axis1, axis2 = 0, 1
    kw = {"offset": g.rng.choice([0, 0, 1, -1, 2]), "axis1": axis1, "axis2": axis2}
    return {"operands": [poly_of(g, shape)], "kw": kw}


Op("diagonal", "shape", _gen_diagonal,
   lambda ns, ops, kw: ns.diagonal(ops[0], **kw),
   np_on_objects(lambda np_, m, kw: np_.diagonal(m[0], **kw)),
   method=lambda ops, kw: ops[0].diagonal(**kw))


def _gen_broadcast_arrays(g):
    base = nd_shape(g)
    count = g.rng.randint(1, 3)
    shapes = [base] + [g.compatible_shape(base) for _ in range(count - 1)]
    return {"operands": same_family(g, count, shapes), "kw": {}}


Op("broadcast_arrays", "shape", _gen_broadcast_arrays,
   lambda ns, ops, kw: ns.broadcast_arrays(*ops),
   lambda mods, kw: [M.wrap(x) for x in numpy.broadcast_arrays(*mods)],
   result="polylist")


def _gen_where(g):
    base = nd_shape(g)
    cond_shape = g.compatible_shape(base)
    cond = g.array_data(cond_shape, "bool", zero_prob=0.0)
    shapes = [base, g.compatible_shape(base)]
    if g.rng.random() < 0.5:
        shapes.reverse()
    ops = same_family(g, 2, shapes)
    if ops[0]["k"] == "poly" and ops[1]["k"] == "poly" and g.rng.random() < 0.3 \
            and len(ops[0]["exps"]) >= 2:
        # the same set of terms in both operands, stored in different orders
        # (construction order is kept by via="retain")
        first, second = ops
        rows = [list(r) for r in first["exps"]]
        order = list(range(len(rows)))
        while order == sorted(order):
            g.rng.shuffle(order)
        shape2 = tuple(second["shape"])
        second.update({"names": list(first["names"]), "exps": [rows[i] for i in order],
                       "coefs": G.nested_map(G.jnum, [g.array_data(shape2, first["kind"], zero_prob=0.0)
                                                      for _ in order]),
                       "kind": first["kind"], "via": "retain"})
        second.pop("dtype", None)
        first["via"] = "retain"
        first["coefs"] = G.nested_map(G.jnum, [g.array_data(tuple(first["shape"]), first["kind"],
                                                            zero_prob=0.0) for _ in rows])
    return {"operands": ops, "kw": {"cond": cond, "cond_shape": list(cond_shape)}}


def _cond(kw):
    return numpy.array(kw["cond"], dtype=bool).reshape(kw["cond_shape"])


Op("where", "select", _gen_where,
   lambda ns, ops, kw: ns.where(_cond(kw), ops[0], ops[1]),
   lambda mods, kw: M.wrap(numpy.where(_cond(kw), *numpy.broadcast_arrays(
       _cond(kw), M.wrap(mods[0]), M.wrap(mods[1]))[1:])))


def _gen_choose(g):
    nchoices = g.rng.randint(1, 3)
    shape = nd_shape(g, maxdim=2)
    index_shape = g.rng.choice([shape, (), g.compatible_shape(shape)])
    data = g.array_data(index_shape, "int", zero_prob=0.3)
    data = G.nested_map(lambda v: abs(v) % nchoices, data)
    return {"operands": [poly_of(g, (nchoices,) + tuple(shape))],
            "kw": {"a": data, "a_shape": list(index_shape)}}


def _choose_a(kw):
    return numpy.array(kw["a"], dtype=int).reshape(kw["a_shape"])


Op("choose", "select", _gen_choose,
   lambda ns, ops, kw: ns.choose(_choose_a(kw), ops[0]),
   lambda mods, kw: M.wrap(numpy.choose(_choose_a(kw), list(mods[0]))))


def _gen_full(g):
    shape = g.rng.choice([(), (2,), (2, 3), (1,), 3, (0,), (2, 0)])
    return {"operands": [poly_of(g, ())],
            "kw": {"shape": list(shape) if isinstance(shape, tuple) else shape}}


Op("full", "create", _gen_full,
   lambda ns, ops, kw: ns.full(_shape_arg(kw), ops[0]),
   lambda mods, kw: M.oarray(_shape_arg(kw) if isinstance(_shape_arg(kw), tuple)
                             else (_shape_arg(kw),), mods[0][()]))


def _gen_full_like(g):
    shape = nd_shape(g)
    kind = g.rng.choice(G.KINDS)
    kw = {}
    if g.rng.random() < 0.3:
        kw["shape"] = list(g.rng.choice([(), (), (2,), (1, 3)]))  # an override, () is a valid one
    return {"operands": [poly_of(g, shape, kind=kind), poly_of(g, (), kind=kind)], "kw": kw}


def _full_like_kw(kw):
    return {"shape": tuple(kw["shape"])} if "shape" in kw else {}


Op("full_like", "create", _gen_full_like,
   lambda ns, ops, kw: ns.full_like(ops[0], ops[1], **_full_like_kw(kw)),
   lambda mods, kw: M.oarray(tuple(kw["shape"]) if "shape" in kw else mods[0].shape, mods[1][()]))


def _gen_getitem(g):
    shape = nd_shape(g)
    index = gen_index(g, shape)
    return {"operands": [poly_of(g, shape)], "kw": {"index": enc_index(index)}}


def _getitem_model(mods, kw):
    return M.wrap(mods[0][dec_index(kw["index"])])


Op("getitem", "index", _gen_getitem,
   lambda ns, ops, kw: ops[0][dec_index(kw["index"])], _getitem_model)


def _gen_unary_shape(g):
    return {"operands": [poly_of(g, nd_shape(g))], "kw": {}}


Op("ravel", "shape", _gen_unary_shape,
   lambda ns, ops, kw: ops[0].ravel(), lambda mods, kw: mods[0].ravel())
Op("flatten", "shape", _gen_unary_shape,
   lambda ns, ops, kw: ops[0].flatten(), lambda mods, kw: mods[0].flatten())
Op("T", "shape", _gen_unary_shape,
   lambda ns, ops, kw: ops[0].T, lambda mods, kw: mods[0].T)
Op("flat", "shape", _gen_unary_shape,
   lambda ns, ops, kw: ops[0].flat, lambda mods, kw: mods[0].ravel())
Op("iter", "index",
   lambda g: {"operands": [poly_of(g, nd_shape(g, mindim=1))], "kw": {}},
   lambda ns, ops, kw: list(iter(ops[0])),
   lambda mods, kw: [M.wrap(mods[0][i]) for i in range(mods[0].shape[0])],
   result="polylist")
Op("copy", "shape", _gen_unary_shape,
   lambda ns, ops, kw: ops[0].copy(), lambda mods, kw: mods[0])


# ---------------------------------------------------------------------------
# C10: reductions and linear algebra
# ---------------------------------------------------------------------------

def _gen_reduce(axis_tuple=True, keepdims=True, mindim=1):
    def gen(g):
        shape = nd_shape(g, mindim=mindim)
        ndim = len(shape)
        kw = {}
        roll = g.rng.random()
        if roll < 0.25 or ndim == 0:
            pass
        elif roll < 0.7 or not axis_tuple:
            kw["axis"] = axis_of(g, ndim)
        else:
            count = g.rng.randint(1, ndim)
            kw["axis"] = [ax - ndim if g.rng.random() < 0.4 else ax
                          for ax in g.rng.sample(range(ndim), count)]
        if g.rng.random() < 0.15:
            kw["axis"] = None
        if keepdims and g.rng.random() < 0.4:
            kw["keepdims"] = g.rng.choice([True, False])
        return {"operands": [poly_of(g, shape, maxexp=2)], "kw": kw}
    return gen


def _axis_kw(kw):
    out = {}
    if "axis" in kw:
        out["axis"] = tuple(kw["axis"]) if isinstance(kw["axis"], list) else kw["axis"]
    if "keepdims" in kw:
        out["keepdims"] = kw["keepdims"]
    return out


Op("sum", "reduce", _gen_reduce(),
   lambda ns, ops, kw: ns.sum(ops[0], **_axis_kw(kw)),
   lambda mods, kw: M.m_reduce(M.m_sum_list, mods[0], **_axis_kw(kw)),
   method=lambda ops, kw: ops[0].sum(**_axis_kw(kw)))


def _gen_sum_where(g):
    case = _gen_reduce(mindim=1)(g)
    shape = tuple(case["operands"][0]["shape"])
    mask_shape = g.rng.choice([shape, shape[-1:], shape])
    case["kw"]["where"] = g.array_data(mask_shape, "bool", zero_prob=0.0)
    case["kw"]["where_shape"] = list(mask_shape)
    return case


def _where_kw(kw):
    out = _axis_kw(kw)
    out["where"] = numpy.array(kw["where"], dtype=bool).reshape(kw["where_shape"])
    return out


def _sum_where_model(mods, kw):
    mask = numpy.broadcast_to(numpy.array(kw["where"], dtype=bool).reshape(kw["where_shape"]),
                              mods[0].shape)
    masked = numpy.empty(mods[0].shape, dtype=object)
    for idx in numpy.ndindex(*mods[0].shape):
        masked[idx] = mods[0][idx] if mask[idx] else M.MP()
    return M.m_reduce(M.m_sum_list, masked, **_axis_kw(kw))


Op("sum_where", "reduce", _gen_sum_where,
   lambda ns, ops, kw: ns.sum(ops[0], **_where_kw(kw)), _sum_where_model,
   method=lambda ops, kw: ops[0].sum(**_where_kw(kw)), npname="sum")


def _mean_fold(items):
    return M.m_sum_list(items).div_scalar(len(items))


Op("mean", "reduce", _gen_reduce(),
   lambda ns, ops, kw: ns.mean(ops[0], **_axis_kw(kw)),
   lambda mods, kw: M.m_reduce(_mean_fold, mods[0], **_axis_kw(kw)),
   method=lambda ops, kw: ops[0].mean(**_axis_kw(kw)), tol=True)


def _gen_prod(g):
    case = _gen_reduce()(g)
    spec = case["operands"][0]
    shape = tuple(spec["shape"])
    # keep the products small: few terms, low degree
    case["operands"][0] = g.poly(shape=shape, nterms=g.rng.choice([1, 2, 2]), maxexp=1,
                                 names=g.rng.choice([["q0"], ["q0", "q1"]]),
                                 kind=g.rng.choice(["int", "int", "float"]))
    return case


Op("prod", "reduce", _gen_prod,
   lambda ns, ops, kw: ns.prod(ops[0], **_axis_kw(kw)),
   lambda mods, kw: M.m_reduce(M.m_prod_list, mods[0], **_axis_kw(kw)),
   method=lambda ops, kw: ops[0].prod(**_axis_kw(kw)))


def _gen_cumsum(g):
    shape = nd_shape(g, mindim=0)
    kw = {}
    if len(shape) and g.rng.random() < 0.75:
        kw["axis"] = axis_of(g, len(shape))
    return {"operands": [poly_of(g, shape, maxexp=2)], "kw": kw}


def _cumsum_model(mods, kw):
    arr = mods[0]
    if "axis" not in kw or kw["axis"] is None:
        arr = arr.ravel()
        axis = 0
    else:
        axis = kw["axis"] % arr.ndim
    out = numpy.empty(arr.shape, dtype=object)
    moved_in = numpy.moveaxis(arr, axis, 0) if arr.ndim else arr
    moved_out = numpy.moveaxis(out, axis, 0) if arr.ndim else out
    for idx in numpy.ndindex(*moved_in.shape[1:]):
        total = M.MP()
        for i in range(moved_in.shape[0]):
            total = total + moved_in[(i,) + idx]
            moved_out[(i,) + idx] = total
    return out


Op("cumsum", "reduce", _gen_cumsum,
   lambda ns, ops, kw: ns.cumsum(ops[0], **_axis_kw(kw)), _cumsum_model,
   method=lambda ops, kw: ops[0].cumsum(**_axis_kw(kw)))


def _gen_diff(g):
    shape = nd_shape(g, mindim=1)
    ndim = len(shape)
    kw = {"n": g.rng.choice([1, 1, 2, 0, 3])}
    axis = axis_of(g, ndim)
    if g.rng.random() < 0.7:
        kw["axis"] = axis
    else:
        axis = -1
    ops = [poly_of(g, shape, maxexp=2)]
    for name in ("prepend", "append"):
        if g.rng.random() < 0.3:
            pshape = list(shape)
            pshape[axis] = g.rng.choice([1, 2])
            kw[name] = len(ops)
            kind = ops[0]["kind"] if g.rng.random() < 0.6 else g.rng.choice(["int", "float", "complex"])
            ops.append(poly_of(g, tuple(pshape), maxexp=2, kind=kind))
            if g.rng.random() < 0.3 and ops[0]["k"] == "poly":
                # the same exponent table as the array, over other indeterminates (q0 -> q1 ...):
                # equal storage keys, different polynomials
                extra = ops[-1]
                extra["names"] = ["q%d" % (int(n[1:]) + 1) for n in ops[0]["names"]]
                extra["exps"] = [list(r) for r in ops[0]["exps"]]
                extra["kind"] = ops[0]["kind"]
                extra.pop("dtype", None)
                extra.pop("view", None)
                extra["coefs"] = G.nested_map(G.jnum, [g.array_data(tuple(pshape), ops[0]["kind"],
                                                                    zero_prob=0.1)
                                                       for _ in extra["exps"]])
    if "prepend" in kw and g.rng.random() < 0.5:
        kw["positional"] = True
    return {"operands": ops, "kw": kw}


def _diff_call(ns, ops, kw):
    extra = {}
    for name in ("prepend", "append"):
        if name in kw:
            extra[name] = ops[kw[name]]
    if "axis" in kw:
        extra["axis"] = kw["axis"]
    if kw.get("positional") and "prepend" in extra:
        # numpy's parameter order: diff(a, n, axis, prepend, append)
        rest = [extra["append"]] if "append" in extra else []
        return ns.diff(ops[0], kw["n"], extra.get("axis", -1), extra["prepend"], *rest)
    return ns.diff(ops[0], n=kw["n"], **extra)


def _diff_model(mods, kw):
    arr = mods[0]
    axis = kw.get("axis", -1)
    if kw["n"] == 0:  # numpy returns the input itself, ignoring prepend/append
        return arr
    parts = []
    if "prepend" in kw:
        parts.append(mods[kw["prepend"]])
    parts.append(arr)
    if "append" in kw:
        parts.append(mods[kw["append"]])
    arr = numpy.concatenate(parts, axis=axis)
    for _ in range(kw["n"]):
        moved = numpy.moveaxis(arr, axis, 0)
        new = numpy.empty((max(moved.shape[0] - 1, 0),) + moved.shape[1:], dtype=object)
        for i in range(new.shape[0]):
            for idx in numpy.ndindex(*moved.shape[1:]):
                new[(i,) + idx] = moved[(i + 1,) + idx] - moved[(i,) + idx]
        arr = numpy.moveaxis(new, 0, axis)
    return arr


Op("diff", "reduce", _gen_diff, _diff_call, _diff_model)


def _gen_ediff1d(g):
    shape = nd_shape(g)
    ops = [poly_of(g, shape, maxexp=2)]
    kw = {}
    for name in ("to_begin", "to_end"):
        if g.rng.random() < 0.35:
            kw[name] = len(ops)
            ops.append(poly_of(g, g.rng.choice([(), (1,), (2,)]), maxexp=2, kind=ops[0]["kind"]))
    return {"operands": ops, "kw": kw}


def _ediff1d_call(ns, ops, kw):
    extra = {name: ops[kw[name]] for name in ("to_begin", "to_end") if name in kw}
    return ns.ediff1d(ops[0], **extra)


def _ediff1d_model(mods, kw):
    flat = mods[0].ravel()
    items = [flat[i + 1] - flat[i] for i in range(len(flat) - 1)]
    if "to_begin" in kw:
        items = list(M.wrap(mods[kw["to_begin"]]).ravel()) + items
    if "to_end" in kw:
        items = items + list(M.wrap(mods[kw["to_end"]]).ravel())
    out = numpy.empty((len(items),), dtype=object)
    for i, item in enumerate(items):
        out[i] = item
    return out


Op("ediff1d", "reduce", _gen_ediff1d, _ediff1d_call, _ediff1d_model)


def _small(g, shape, kind=None):
    return g.poly(shape=shape, nterms=g.rng.choice([1, 2, 2, 3]), maxexp=2,
                  kind=kind or g.rng.choice(["int", "int", "float"]))


def _ufunc_axis(kw, ndim):
    """numpy's own default for ufunc.reduce / accumulate is axis=0."""
    axis = kw.get("axis", 0) if "axis" in kw else 0
    return axis


def _gen_ufunc_reduce(g):
    case = _gen_reduce(axis_tuple=False, keepdims=False, mindim=1)(g)
    case["kw"].pop("keepdims", None)
    if case["kw"].get("axis", 0) is None:
        case["kw"].pop("axis")
    return case


def _ureduce_kw(kw):
    return {"axis": kw["axis"]} if "axis" in kw else {}


Op("add.reduce", "reduce", _gen_ufunc_reduce,
   lambda ns, ops, kw: numpy.add.reduce(ops[0], **_ureduce_kw(kw)),
   lambda mods, kw: M.m_reduce(M.m_sum_list, mods[0], axis=_ufunc_axis(kw, mods[0].ndim)),
   npname="add")


def _gen_ufunc_prod(g):
    case = _gen_prod(g)
    case["kw"].pop("keepdims", None)
    if isinstance(case["kw"].get("axis"), list) or case["kw"].get("axis", 0) is None:
        case["kw"].pop("axis")
    if not case["operands"][0]["shape"]:
        case["operands"][0] = g.poly(shape=(2,), nterms=2, maxexp=1, names=["q0"], kind="int")
    return case


Op("multiply.reduce", "reduce", _gen_ufunc_prod,
   lambda ns, ops, kw: numpy.multiply.reduce(ops[0], **_ureduce_kw(kw)),
   lambda mods, kw: M.m_reduce(M.m_prod_list, mods[0], axis=_ufunc_axis(kw, mods[0].ndim)),
   npname="multiply")


def _gen_ufunc_accumulate(g):
    shape = nd_shape(g, mindim=1)
    kw = {}
    if g.rng.random() < 0.6:
        kw["axis"] = axis_of(g, len(shape))
    return {"operands": [poly_of(g, shape, maxexp=2)], "kw": kw}


Op("add.accumulate", "reduce", _gen_ufunc_accumulate,
   lambda ns, ops, kw: numpy.add.accumulate(ops[0], **_ureduce_kw(kw)),
   lambda mods, kw: _cumsum_model(mods, {"axis": _ufunc_axis(kw, mods[0].ndim)}),
   npname="add")


def _gen_inner(g):
    n = g.rng.choice([1, 2, 3, 4])
    a = _small(g, (n,))
    if g.rng.random() < 0.25:
        b = g.const_operand(shape=(n,), kind=a["kind"])
    else:
        b = _small(g, (n,), kind=a["kind"])
    ops = [a, b]
    if g.rng.random() < 0.3:
        ops.reverse()
    return {"operands": ops, "kw": {}}


def _inner_model(mods, kw):
    a, b = M.wrap(mods[0]), M.wrap(mods[1])
    return M.wrap(M.m_sum_list([a[i] * b[i] for i in range(a.shape[0])]))


Op("inner", "linalg", _gen_inner, lambda ns, ops, kw: ns.inner(ops[0], ops[1]), _inner_model)


def _gen_outer(g):
    a = _small(g, g.rng.choice([(), (1,), (2,), (3,), (2, 2)]))
    if g.rng.random() < 0.25:
        b = g.const_operand(shape=g.rng.choice([(2,), (3,), ()]), kind=a["kind"])
    else:
        b = _small(g, g.rng.choice([(), (1,), (2,), (3,), (1, 2)]), kind=a["kind"])
    ops = [a, b]
    if g.rng.random() < 0.3:
        ops.reverse()
    return {"operands": ops, "kw": {}}


def _outer_model(mods, kw):
    a, b = M.wrap(mods[0]).ravel(), M.wrap(mods[1]).ravel()
    out = numpy.empty((len(a), len(b)), dtype=object)
    for i in range(len(a)):
        for j in range(len(b)):
            out[i, j] = a[i] * b[j]
    return out


Op("outer", "linalg", _gen_outer, lambda ns, ops, kw: ns.outer(ops[0], ops[1]), _outer_model)


def _gen_matmul(g):
    n, k, m = (g.rng.choice([1, 2, 3]) for _ in range(3))
    form = g.rng.choice(["mm", "mm", "vm", "mv", "vv", "stacked", "bcast", "bcast_rev", "bcast2"])
    if form == "mm":
        sa, sb = (n, k), (k, m)
    elif form == "vm":
        sa, sb = (k,), (k, m)
    elif form == "mv":
        sa, sb = (n, k), (k,)
    elif form == "vv":
        sa, sb = (k,), (k,)
    elif form == "stacked":
        sa, sb = (2, n, k), (2, k, m)
    elif form == "bcast_rev":
        sa, sb = (n, k), (2, k, m)
    elif form == "bcast2":
        sa, sb = (2, 1, n, k), (3, k, m)
    else:
        sa, sb = (2, n, k), (k, m)
    a = _small(g, sa)
    b = _small(g, sb, kind=a["kind"]) if g.rng.random() < 0.8 else \
        g.const_operand(shape=sb, kind=a["kind"])
    ops = [a, b]
    if g.rng.random() < 0.15:
        # the plain numeric operand on the left: A @ P (never P @ A, also for square shapes)
        ops = [g.const_operand(shape=sa, kind=a["kind"]), _small(g, sb, kind=a["kind"])]
    return {"operands": ops, "kw": {}}


def _matmul_model(mods, kw):
    a, b = M.wrap(mods[0]), M.wrap(mods[1])
    a2 = a[None, :] if a.ndim == 1 else a
    b2 = b[:, None] if b.ndim == 1 else b
    batch = numpy.broadcast_shapes(a2.shape[:-2], b2.shape[:-2])
    a2 = numpy.broadcast_to(a2, batch + a2.shape[-2:])
    b2 = numpy.broadcast_to(b2, batch + b2.shape[-2:])
    out = numpy.empty(batch + (a2.shape[-2], b2.shape[-1]), dtype=object)
    for idx in numpy.ndindex(*batch):
        for i in range(a2.shape[-2]):
            for j in range(b2.shape[-1]):
                out[idx + (i, j)] = M.m_sum_list(
                    [a2[idx + (i, t)] * b2[idx + (t, j)] for t in range(a2.shape[-1])])
    if a.ndim == 1:
        out = out[..., 0, :]
    if b.ndim == 1:
        out = out[..., 0]
    return M.wrap(out)


Op("matmul", "linalg", _gen_matmul, lambda ns, ops, kw: ns.matmul(ops[0], ops[1]), _matmul_model)


def _gen_det(g):
    n = g.rng.choice([1, 2, 2, 3, 3, 4])
    roll = g.rng.random()
    shape = (n, n)
    if roll < 0.25:
        shape = (2, n, n)
    elif roll < 0.4 and n <= 3:
        shape = g.rng.choice([(2, 3), (3, 2), (1, 2), (2, 1, 2)]) + (n, n)  # several stack axes
    nterms = 1 if n == 4 else g.rng.choice([1, 2])
    poly = g.poly(shape=shape, nterms=nterms, maxexp=1, names=g.rng.choice([["q0"], ["q0", "q1"]]),
                  kind=g.rng.choice(["int", "int", "float"]))
    return {"operands": [poly], "kw": {}}


def _perm_sign(perm):
    sign = 1
    perm = list(perm)
    for i in range(len(perm)):
        while perm[i] != i:
            j = perm[i]
            perm[i], perm[j] = perm[j], perm[i]
            sign = -sign
    return sign


def _det_model(mods, kw):
    arr = M.wrap(mods[0])
    n = arr.shape[-1]
    batch = arr.shape[:-2]
    out = numpy.empty(batch, dtype=object)
    for idx in numpy.ndindex(*batch):
        total = M.MP()
        for perm in itertools.permutations(range(n)):
            term = M.MP.const(_perm_sign(perm))
            for i, j in enumerate(perm):
                term = term * arr[idx + (i, j)]
            total = total + term
        out[idx] = total
    return out


Op("det", "linalg", _gen_det, lambda ns, ops, kw: ns.det(ops[0]), _det_model, npname="linalg.det")


GROUP_C09 = ("shape", "join", "split", "select", "create", "index")
GROUP_C10 = ("reduce", "linalg")


def names_in_group(groups):
    return [name for name, op in OPS.items() if op.group in groups]


def namespace_func(ns, op):
    """Resolve e.g. 'linalg.det' in a namespace."""
    obj = ns
    for part in op.npname.split("."):
        obj = getattr(obj, part)
    return obj


# ---------------------------------------------------------------------------
# C11: numeric mirror functions (meaningful on constant polynomials)
# ---------------------------------------------------------------------------

class ConstGen(G.Gen):
    """Generator whose polynomials are all constants (ties, negatives, zeros)."""

    def poly(self, shape=None, names=None, kind=None, nterms=None, maxexp=3, via=None,
             allow_views=True, dtype=None):
        rng = self.rng
        shape = self.shape() if shape is None else tuple(shape)
        kind = rng.choice(["int", "int", "float"]) if kind in (None, "complex") else kind
        pool = {"int": [0, 1, -1, 2, 2, 3, -2, 3], "float": [0.0, 0.5, -1.5, 2.0, 2.0, 0.5, -1.5, 3.25],
                "bool": [True, False]}[kind]

        def rec(dims):
            if not dims:
                return rng.choice(pool)
            return [rec(dims[1:]) for _ in range(dims[0])]
        spec = {"k": "poly", "names": ["q0"], "exps": [[0]], "coefs": [rec(list(shape))],
                "kind": kind, "shape": list(shape), "via": "attrs", "const": True}
        if dtype is None and kind in ("int", "float") and rng.random() < 0.15:
            # narrower coefficient types (the pools are exact in all of them)
            dtype = rng.choice(["int32", "int16", "int8", "uint8"] if kind == "int"
                               else ["float32", "float16"])
            if dtype == "uint8":
                spec["coefs"] = [G.nested_map(abs, spec["coefs"][0])]
        if dtype is not None:
            spec["dtype"] = dtype
        if allow_views and len(shape) >= 2 and rng.random() < 0.1:
            spec["view"] = "T"
        if kind != "bool" and rng.random() < 0.12:
            # still a constant, but stored with an explicit all-zero term of an indeterminate
            # (as kept under retain_coefficients=True), before or after the constant term
            spec["zero_term"] = {"power": rng.choice([1, 2]), "first": rng.random() < 0.5}
        return spec


def const_array(spec):
    """Numeric array denoted by a constant operand spec."""
    if spec["k"] == "poly":
        dtype = spec.get("dtype") or G.DTYPE_OF_KIND[spec["kind"]]
        arr = numpy.array(G.unj_nested(spec["coefs"][0]), dtype=dtype).reshape(spec["shape"])
        if spec.get("view") == "T":
            # same memory layout as the polynomial built from the spec (a transposed view)
            arr = numpy.ascontiguousarray(arr.T).T
        return arr
    obj = G.build(spec)
    return obj


def mirror(name, gen, call, method=None, npname=None, result="array"):
    return Op(name, "mirror", gen, call, None, method=method, npname=npname, result=result)


def _gen_one(mindim=0, maxdim=3, kind=None):
    def gen(g):
        return {"operands": [g.poly(shape=nd_shape(g, mindim=mindim, maxdim=maxdim), kind=kind)],
                "kw": {}}
    return gen


def _gen_two(g):
    base = nd_shape(g)
    kind = g.rng.choice(["int", "int", "float"])
    second = g.poly(shape=g.compatible_shape(base), kind=kind) if g.rng.random() < 0.7 \
        else g.const_operand(shape=g.compatible_shape(base), kind=kind)
    ops = [g.poly(shape=base, kind=kind), second]
    if g.rng.random() < 0.3:
        ops.reverse()
    if ops[0]["k"] != "poly" and ops[1]["k"] != "poly":
        ops[0] = g.poly(shape=base, kind=kind)
    return {"operands": ops, "kw": {}}


def _gen_nonfinite(g):
    case = _gen_one(kind="float")(g)
    spec = case["operands"][0]
    pool = [float("inf"), float("-inf"), float("nan"), 0.0, 1.5, -2.0]
    spec["coefs"] = [G.nested_map(lambda v: G.jnum(g.rng.choice(pool)), spec["coefs"][0])]
    return case


mirror("isfinite_nonfinite", _gen_nonfinite, lambda ns, ops, kw: ns.isfinite(ops[0]),
       npname="isfinite")

for _name in ("absolute", "ceil", "floor", "rint", "isfinite", "negative", "positive", "square"):
    mirror(_name, _gen_one(), (lambda n: lambda ns, ops, kw: getattr(ns, n)(ops[0]))(_name))
mirror("abs", _gen_one(), lambda ns, ops, kw: abs(ops[0]) if ns.__class__.__name__ != "NumpyNS"
       else numpy.abs(ops[0]))


def _gen_around(g):
    if g.rng.random() < 0.3:
        # integer coefficients: rounding to tens / hundreds still changes them
        case = _gen_one(kind="int")(g)
        spec = case["operands"][0]
        spec["coefs"] = [G.nested_map(lambda v: v * 37 + g.rng.choice([0, 5, 15, 49]), spec["coefs"][0])]
        if spec.get("dtype") in ("int8", "uint8"):
            spec.pop("dtype")
        case["kw"] = {"decimals": g.rng.choice([0, 1, -1, -1, -2])}
        return case
    case = _gen_one(kind="float")(g)
    spec = case["operands"][0]
    spec["coefs"] = [G.nested_map(lambda v: v * 1.2345678 + 0.05, spec["coefs"][0])]
    case["kw"] = {"decimals": g.rng.choice([0, 1, 2, 3, -1])}
    return case


for _name in ("around", "round"):
    mirror(_name, _gen_around,
           (lambda n: lambda ns, ops, kw: getattr(ns, n)(ops[0], decimals=kw["decimals"]))(_name),
           method=(lambda ops, kw: ops[0].round(kw["decimals"])) if _name == "round" else None)

for _name in ("add", "subtract", "multiply", "less", "less_equal", "greater", "greater_equal",
              "equal", "not_equal", "maximum", "minimum", "logical_and", "logical_or"):
    mirror(_name, _gen_two, (lambda n: lambda ns, ops, kw: getattr(ns, n)(ops[0], ops[1]))(_name))


def _gen_close(g):
    case = _gen_two(g)
    if g.rng.random() < 0.5:
        # nearly equal second operand
        first = case["operands"][0]
        if first["k"] == "poly":
            other = dict(first)
            other["kind"] = "float"
            other["coefs"] = [G.nested_map(lambda v: float(v) + g.rng.choice([0.0, 1e-9, 1e-3]),
                                           first["coefs"][0])]
            case["operands"] = [first, other]
    case["kw"] = g.rng.choice([{}, {"rtol": 1e-2}, {"atol": 1e-2, "rtol": 0.0}])
    if g.rng.random() < 0.3:
        # distances inside the band where the (asymmetric) relative tolerance decides:
        # |a - b| <= atol + rtol * |b| scales with the *second* operand only
        first = case["operands"][0]
        if first["k"] == "poly":
            other = dict(first)
            other["kind"] = "float"
            other.pop("dtype", None)
            other["coefs"] = [G.nested_map(
                lambda v: float(v) * g.rng.choice([1.05, 1.105, 1.105, 1.2, 0.905, 0.95]),
                first["coefs"][0])]
            case["operands"] = [first, other] if g.rng.random() < 0.5 else [other, first]
            case["kw"] = {"rtol": 0.1, "atol": 0.0}
    elif g.rng.random() < 0.15:
        # large integers one or two apart: under the default tolerances rtol * |b| exceeds 1, so
        # numpy calls them close although they differ (seed C11-r13-1: integer '==' fast path)
        first = case["operands"][0]
        if first["k"] == "poly" and first.get("kind") == "int" and not first.get("dtype"):
            scale = g.rng.choice([250000, 10 ** 6, 3 * 10 ** 7])
            first = dict(first)
            first["coefs"] = [G.nested_map(lambda v: int(v) * 7 + scale, c) for c in first["coefs"]]
            other = dict(first)
            other["coefs"] = [G.nested_map(lambda v: int(v) + g.rng.choice([0, 1, -1, 2]), c)
                              for c in first["coefs"]]
            case["operands"] = [first, other]
            case["kw"] = {}
    return case


def _close_call(name):
    def call(ns, ops, kw):
        func = getattr(ns, name)
        if "rtol" in kw and "atol" in kw and (int(getattr(ops[0], "size", 1)) + int(getattr(ops[1], "ndim", 0))) % 2:
            # tolerances given positionally, in numpy's order (a, b, rtol, atol)
            return func(ops[0], ops[1], kw["rtol"], kw["atol"])
        return func(ops[0], ops[1], **kw)
    return call


mirror("isclose", _gen_close, _close_call("isclose"))
mirror("allclose", _gen_close, _close_call("allclose"))


def _gen_numdiv(g):
    base = nd_shape(g)
    kind = g.rng.choice(["int", "int", "float"])
    a = g.poly(shape=base, kind=kind)
    b = g.poly(shape=g.compatible_shape(base), kind=kind)
    # no zero divisors
    b["coefs"] = [G.nested_map(lambda v: v if v else (2 if kind == "int" else 2.0), b["coefs"][0])]
    if g.rng.random() < 0.25:
        b = {"k": "py", "v": g.rng.choice([2, 3, -2]) if kind == "int" else g.rng.choice([0.5, -2.0])}
    if b["k"] == "poly" and g.rng.random() < 0.2:
        # a narrow float dividend whose quotient is exact only in numpy's promoted dtype
        # (array divisors only: a Python scalar has no dtype to promote with)
        a["kind"], a["dtype"] = "float", g.rng.choice(["float32", "float16"])
        a["coefs"] = [G.nested_map(lambda v: g.rng.choice([60000.0, 33333.0, 12345.0, 999.0]),
                                   a["coefs"][0])]
        if b["k"] == "poly":
            b["kind"] = g.rng.choice(["int", "float"])
            b.pop("dtype", None)
            b["coefs"] = [G.nested_map(lambda v: b["kind"] == "int" and g.rng.choice([3, 7, -7])
                                       or g.rng.choice([3.0, 7.0, 0.7]), b["coefs"][0])]
    return {"operands": [a, b], "kw": {}}


for _name in ("floor_divide", "true_divide", "divide", "remainder", "mod"):
    mirror(_name, _gen_numdiv,
           (lambda n: lambda ns, ops, kw: getattr(ns, n)(ops[0], ops[1]))(_name))
mirror("divmod", _gen_numdiv, lambda ns, ops, kw: ns.divmod(ops[0], ops[1]), result="tuple")


def _gen_numdiv_float(g):
    case = _gen_numdiv(g)
    for spec in case["operands"]:
        if spec["k"] == "poly":
            spec["kind"] = "float"
            if spec.get("dtype") not in ("float32", "float16"):
                spec.pop("dtype", None)
            spec["coefs"] = [G.nested_map(float, spec["coefs"][0])]
        elif spec["k"] == "py":
            spec["v"] = float(spec["v"])
    # out= is the dividend itself: the divisor has the same shape or is a scalar
    a, b = case["operands"]
    b.pop("zero_term", None)  # ... and no stored term the output has no storage for
    if b["k"] == "poly" and list(b["shape"]) != list(a["shape"]):
        b["shape"] = list(a["shape"])
        b["coefs"] = [G.nested_map(lambda v: float(v) if v else 2.0, a["coefs"][0])]
        b.pop("view", None)
    return case


def _div_out_alias(name):
    def call(ns, ops, kw):
        # out= handling differs between the spellings of these two functions (the ufunc protocol
        # hands over a tuple): each is driven through the spelling that accepts a polynomial out
        target = ops[0].copy()
        if isinstance(target, numpy.ndarray) and type(target) is numpy.ndarray:
            return getattr(numpy, name)(target, ops[1], out=target)
        import numpoly
        func = getattr(numpy, name) if name == "true_divide" else getattr(numpoly, name)
        return func(target, ops[1], out=target)
    return call


for _name in ("true_divide", "floor_divide"):
    mirror(_name + "_out_alias", _gen_numdiv_float, _div_out_alias(_name), npname=_name)


def _gen_axis_reduce(keepdims=True, axis_tuple=False, mindim=0):
    def gen(g):
        shape = nd_shape(g, mindim=mindim)
        kw = {}
        ndim = len(shape)
        if ndim and g.rng.random() < 0.7:
            if axis_tuple and g.rng.random() < 0.3:
                kw["axis"] = [ax - ndim if g.rng.random() < 0.4 else ax
                              for ax in g.rng.sample(range(ndim), g.rng.randint(1, ndim))]
            else:
                kw["axis"] = axis_of(g, ndim)
        if keepdims and g.rng.random() < 0.35:
            kw["keepdims"] = g.rng.choice([True, False])
        return {"operands": [g.poly(shape=shape)], "kw": kw}
    return gen


for _name, _kd, _tuple in (("all", True, True), ("any", True, True), ("amax", True, False),
                           ("amin", True, False), ("max", True, False), ("min", True, False),
                           ("count_nonzero", True, True), ("argmax", False, False),
                           ("argmin", False, False)):
    mirror(_name, _gen_axis_reduce(keepdims=_kd, axis_tuple=_tuple),
           (lambda n: lambda ns, ops, kw: getattr(ns, n)(ops[0], **_axis_kw(kw)))(_name),
           method=(lambda n: lambda ops, kw: getattr(ops[0], n)(**_axis_kw(kw)))(_name)
           if _name in ("all", "any", "max", "min") else None)

mirror("nonzero", _gen_one(mindim=1), lambda ns, ops, kw: ns.nonzero(ops[0]), result="tuple",
       method=lambda ops, kw: ops[0].nonzero())


def _argext_out(name):
    def call(ns, ops, kw):
        buf = numpy.zeros((), dtype=numpy.intp) if "axis" not in kw else None
        if buf is None:
            ref = numpy.argmax(numpy.zeros(ops[0].shape), axis=kw["axis"])
            buf = numpy.zeros(ref.shape, dtype=numpy.intp)
        extra = {"axis": kw["axis"]} if "axis" in kw else {}
        res = getattr(ns, name)(ops[0], out=buf, **extra)
        return [numpy.asarray(res), buf]
    return call


for _name in ("argmax", "argmin"):
    mirror(_name + "_out", _gen_axis_reduce(keepdims=False, axis_tuple=False, mindim=1),
           _argext_out(_name), npname=_name, result="tuple")




def _gen_creation(g):
    shape = g.rng.choice([(), (2,), (2, 3), 3, (1,), (0,)])
    kw = {"shape": list(shape) if isinstance(shape, tuple) else shape}
    if g.rng.random() < 0.5:
        kw["dtype"] = g.rng.choice(["int64", "float64", "bool", "int32"])
    return {"operands": [], "kw": kw}


for _name in ("ones", "zeros"):
    mirror(_name, _gen_creation,
           (lambda n: lambda ns, ops, kw: getattr(ns, n)(_shape_arg(kw), **kwget(kw, "dtype")))(_name))


def _gen_like(g):
    case = _gen_one()(g)
    if g.rng.random() < 0.4:
        case["kw"]["dtype"] = g.rng.choice(["int64", "float64", "bool"])
    if g.rng.random() < 0.3:
        case["kw"]["shape"] = list(g.rng.choice([(2,), (2, 2), ()]))
    return case


def _like_kw(kw):
    out = kwget(kw, "dtype")
    if "shape" in kw:
        out["shape"] = tuple(kw["shape"])
    return out


for _name in ("ones_like", "zeros_like"):
    mirror(_name, _gen_like,
           (lambda n: lambda ns, ops, kw: getattr(ns, n)(ops[0], **_like_kw(kw)))(_name))

mirror("common_type", _gen_two,
       lambda ns, ops, kw: numpy.dtype(ns.common_type(*[o for o in ops if hasattr(o, "dtype")])),
       result="dtype")
mirror("result_type", _gen_two, lambda ns, ops, kw: numpy.dtype(ns.result_type(*ops)),
       result="dtype")


def _gen_apply_along(g):
    shape = nd_shape(g, mindim=1)
    return {"operands": [g.poly(shape=shape)],
            "kw": {"axis": axis_of(g, len(shape)), "func": g.rng.choice(["sum", "cumsum", "rev"])}}


def _func1d(ns, name):
    if name == "sum":
        return lambda x: ns.sum(x)
    if name == "cumsum":
        return lambda x: ns.cumsum(x)
    return lambda x: x[::-1]


mirror("apply_along_axis", _gen_apply_along,
       lambda ns, ops, kw: ns.apply_along_axis(_func1d(ns, kw["func"]), kw["axis"], ops[0]))


def _gen_apply_over(g):
    shape = nd_shape(g, mindim=1)
    ndim = len(shape)
    return {"operands": [g.poly(shape=shape)],
            "kw": {"axes": g.rng.sample(range(ndim), g.rng.randint(1, ndim))}}


mirror("apply_over_axes", _gen_apply_over,
       lambda ns, ops, kw: ns.apply_over_axes(ns.sum, ops[0], kw["axes"]))


def _gen_power(g):
    base = nd_shape(g)
    a = g.poly(shape=base, kind="int")
    eshape = g.compatible_shape(base)
    data = G.nested_map(lambda v: abs(v) % 4, g.array_data(eshape, "int"))
    exp = {"k": "arr", "data": data, "dtype": "int64", "shape": list(eshape), "layout": "C"} \
        if eshape else {"k": "py", "v": g.rng.choice([0, 1, 2, 3])}
    return {"operands": [a, exp], "kw": {}}


mirror("power", _gen_power, lambda ns, ops, kw: ns.power(ops[0], ops[1]))


def _gen_copyto(g):
    base = nd_shape(g)
    kind = g.rng.choice(["int", "float"])
    kw = {}
    if g.rng.random() < 0.4:
        kw["where"] = g.array_data(base, "bool", zero_prob=0.0)
    if g.rng.random() < 0.3:
        kw["plain_dst"] = True  # destination is a plain numeric ndarray, source a polynomial
    src = g.poly(shape=g.compatible_shape(base), kind=kind)
    # a destination is not resized in place: it has storage for every stored term of the source
    src.pop("zero_term", None)
    return {"operands": [g.poly(shape=base, kind=kind, allow_views=False), src], "kw": kw}


def _copyto_call(ns, ops, kw):
    dst = ops[0].copy()
    if kw.get("plain_dst") and hasattr(dst, "tonumpy"):
        dst = dst.tonumpy().copy()
    extra = {}
    if "where" in kw:
        extra["where"] = numpy.array(kw["where"], dtype=bool)
    ns.copyto(dst, ops[1], **extra)
    return dst


mirror("copyto", _gen_copyto, _copyto_call)

GROUP_MIRROR = ("mirror",)
