"""C15: option settings never change the mathematical result.

Differential across configurations: every operation of the catalogue is run
under the default options and under a non-default setting; model value, shape
and dtype must match and no setting may make the operation fail.
"""
from __future__ import annotations

import itertools
import pickle
import random

import numpy

from vf import catalogue as C
from vf import catrun
from vf import gen as G
from vf import model as M
from vf import oracle as O
from vf.harness import exc_fact, tb_short

BOOL_OPTIONS = ["display_graded", "display_reverse", "display_inverse", "force_number_suffix",
                "retain_names", "retain_coefficients", "sort_graded", "sort_reverse"]
SORT_OPTIONS = ("sort_graded", "sort_reverse")
RETAIN_OPTIONS = ("retain_names", "retain_coefficients")
STRINGS = [{}, {}, {"display_exponent": "^"}, {"display_multiply": " "},
           {"display_exponent": "^", "display_multiply": ""}]
ORDER_BASED = {"less", "less_equal", "greater", "greater_equal", "maximum", "minimum", "amax", "amin",
               "max", "min", "argmax", "argmin", "compare"}
# explicit output targets are laid out for one option setting (their names / terms are what the
# operation produces under that setting): not comparable across settings
SKIP = {"copyto", "stack_out"}
META = {
    "level": "exploration",
    "rule": (
        "operation catalogue (shape / join / split / select / index / reduce / linalg / mirror "
        "entries plus construct, ring, derivative/gradient/hessian, call by keyword, align_*, "
        "pickle, lead_*, compare, poly_divmod with / and %) x option settings (quick: pairwise-covering set of the "
        "eight boolean options + the four retain combinations + display strings; thorough: all 256 "
        "settings reachable) x C01 inputs: each case is executed under defaults and under the "
        "setting; model value (by name), shape and dtype must agree and the setting must not make "
        "the operation fail. Ordering-based functions are only compared under equal sort options, "
        "division only under default retain options, set_dimensions is excluded. signature = "
        "(operation, option setting); non-trivial when the setting differs from the defaults"
    ),
    "assumptions": ["which zero terms / unused names are kept is not compared (that is what the "
                    "retain options legitimately change)"],
    "min_evaluations": {"quick": 6000, "thorough": 200000},
    "required_counters": ["op_" + name for name in ("construct", "ring", "derivative", "call", "align", "pickle", "lead", "compare", "poly_divmod", "getset", "program", "finite")],
}
EXTRA_OPS = ["construct", "ring", "derivative", "call", "align", "pickle", "lead", "compare", "poly_divmod",
             "getset", "program", "program", "finite", "poly_divmod", "poly_divmod", "poly_divmod"]


assert not set(EXTRA_OPS) & set(C.OPS), "extra operation names must not shadow catalogue entries"


def shards(tier, seed):
    n = 8 if tier == "quick" else 16
    per = 14 if tier == "quick" else 260
    return [{"part": i, "per_op": per} for i in range(n)]


def facts_of_case(case):
    return {"op": case.get("op", "?")}


def covering_settings():
    """Pairwise-covering set over the eight boolean options + retain combos."""
    rng = random.Random(12345)
    settings = []
    pairs_needed = set()
    for a, b in itertools.combinations(range(8), 2):
        for va, vb in itertools.product([True, False], repeat=2):
            pairs_needed.add((a, va, b, vb))
    while pairs_needed:
        best, gain = None, -1
        for _ in range(60):
            cand = tuple(rng.random() < 0.5 for _ in range(8))
            g = sum(1 for (a, va, b, vb) in pairs_needed if cand[a] == va and cand[b] == vb)
            if g > gain:
                best, gain = cand, g
        settings.append(dict(zip(BOOL_OPTIONS, best)))
        pairs_needed = {(a, va, b, vb) for (a, va, b, vb) in pairs_needed
                        if not (best[a] == va and best[b] == vb)}
    for rn, rc in itertools.product([True, False], repeat=2):
        settings.append({"retain_names": rn, "retain_coefficients": rc})
    return settings


def pick_setting(g, tier):
    if tier == "quick":
        base = dict(g.rng.choice(covering_settings_cache()))
    else:
        base = {name: g.rng.random() < 0.5 for name in BOOL_OPTIONS}
    base.update(g.rng.choice(STRINGS))
    return base


_CACHE = []


def covering_settings_cache():
    if not _CACHE:
        _CACHE.extend(covering_settings())
    return _CACHE


def gen_extra(g, name):
    rng = g.rng
    shape = g.shape(2)
    kind = rng.choice(["int", "int", "float"])
    a = g.poly(shape=shape, kind=kind, maxexp=3)
    b = g.poly(shape=g.compatible_shape(shape), kind=kind, maxexp=2, allow_views=False)
    case = {"op": name, "operands": [a, b], "kw": {}}
    if name == "derivative":
        case["kw"] = {"name": rng.choice(a["names"])}
    if name == "pickle":
        # representation with explicit all-zero terms (as kept by retain_coefficients)
        a = g.poly(shape=shape, kind=kind, maxexp=3, nterms=rng.choice([3, 4, 5]), via="retain",
                   allow_views=False)
        for k in rng.sample(range(len(a["coefs"])), rng.choice([1, 1, 2])):
            if any(a["exps"][k]):
                a["coefs"][k] = G.nested_map(lambda v: 0 if kind == "int" else 0.0, a["coefs"][k])
        case["operands"] = [a, b]
    if name == "program":
        case["kw"] = {"which": rng.randrange(7), "c": rng.choice([1, 2, 3]), "n": rng.choice([2, 3])}
    if name == "finite":
        # a non-constant term whose coefficients are non-finite in every element
        a = g.poly(shape=shape, kind="float", maxexp=3, nterms=rng.choice([2, 3]), allow_views=False)
        rows = [k for k, row in enumerate(a["exps"]) if any(row)]
        for k in rng.sample(rows, min(len(rows), rng.choice([1, 1, 2]))):
            a["coefs"][k] = G.nested_map(
                lambda v: G.jnum(rng.choice([float("nan"), float("inf"), float("-inf")])),
                a["coefs"][k])
        case["operands"] = [a, b]
    if name == "poly_divmod":
        names = rng.choice([["q0"], ["q0", "q1"], ["q0", "q1"], ["q0", "q1", "q2"]])
        case["operands"] = [
            g.poly(shape=shape, names=names, kind=kind, nterms=3, maxexp=3, allow_views=False),
            g.poly(shape=(), names=names, kind=kind, nterms=2, maxexp=2, allow_views=False)]
    return case


def run_extra(case, real):
    import numpoly

    a, b = real
    name = case["op"]
    if name == "construct":
        return (numpoly.polynomial(a), numpoly.aspolynomial(numpy.asarray(a), names=a.names),
                numpoly.polynomial_from_attributes(a.exponents, a.coefficients, a.names),
                numpoly.polynomial([a, a]) if a.ndim < 3 else None,
                numpoly.polynomial(a.todict(), names=a.names) if a.size else None,
                numpoly.polynomial(numpy.asarray(b.coefficients[0])))
    if name == "ring":
        return a + b, a - b, a * b, -a, a ** 2, b * 3 - a
    if name == "derivative":
        first = case["kw"]["name"]
        second = a.names[-1]
        return (numpoly.derivative(a, first), numpoly.gradient(a),
                numpoly.hessian(a) if a.ndim < 2 else None,
                numpoly.derivative(a, first, second), numpoly.derivative(a, 0, 0),
                numpoly.derivative(a, first, first, second))
    if name == "call":
        first = a.names[0]
        return (a(**{first: 2}), a(**{n: 1.5 for n in a.names}), a(**{first: b}),
                a(**{n: numpy.arange(3) for n in a.names}))
    if name == "align":
        return (numpoly.align_polynomials(a, b), numpoly.align_exponents(a, b),
                numpoly.align_indeterminants(a, b), numpoly.align_shape(a, b))
    if name == "pickle":
        import copy
        zeroed = a - a + b * 0  # all terms cancel: what is kept depends on the options
        back = pickle.loads(pickle.dumps(a))
        return (back, a.copy(), back + 1, back * b, copy.deepcopy(a),
                pickle.loads(pickle.dumps(zeroed, protocol=2)),
                pickle.loads(pickle.dumps(a * b - a * b + a)))
    if name == "lead":
        return (numpoly.lead_exponent(a, graded=True), numpoly.lead_coefficient(a, graded=True),
                numpoly.lead_exponent(a, reverse=True), numpoly.lead_coefficient(a),
                numpoly.sortable_proxy(a, graded=True), a.isconstant(), numpoly.decompose(a))
    if name == "compare":
        return a < b, a >= b, a == b, a != b, numpoly.maximum(a, b), numpoly.minimum(a, b)
    if name == "poly_divmod":
        return numpoly.poly_divmod(a, b), a / b, a % b
    if name == "program":
        # whole programs executed inside the option block: everything, including the
        # indeterminates, is created under the setting
        import copy
        which, c, n = case["kw"]["which"], case["kw"]["c"], case["kw"]["n"]
        q0, q1, q2 = numpoly.variable(3)
        if which == 0:
            p = numpoly.polynomial([q0 + q1 + q0 * q1 + c, 2 * q0 - q1]) - q0 * q1
            r = pickle.loads(pickle.dumps(p))
            return p, r, r + 1, r * q2, numpoly.sum(r)
        if which == 1:
            basis = numpoly.monomial(0, n + 1, dimensions=2)
            p = numpoly.sum(basis * (numpy.arange(len(basis)) % 2 * c))
            r = copy.deepcopy(p)
            return p, r * 2, pickle.loads(pickle.dumps(p, protocol=2)) - p, r.isconstant()
        if which == 2:
            p = (q0 + q1) ** n - (q0 - q1) ** n
            s = p - 2 * n * q0 ** (n - 1) * q1 if n == 2 else p
            return p, s, s.tonumpy() if s.isconstant() else s * 1, numpoly.lead_coefficient(p)
        if which == 3:
            p = numpoly.polynomial({(0, 0): [1, c], (1, 0): [0, 0], (0, 1): [3, 4]}, names=("q0", "q1"))
            return p, pickle.loads(pickle.dumps(p)) * 2, p[0], numpoly.concatenate([p, p + q0])
        if which == 6:
            # a narrow coefficient type and a variable that only occurs in terms that cancel:
            # result dtypes must not depend on whether the zero terms are still stored
            x = numpoly.polynomial(q0, dtype="float32")
            y = numpoly.polynomial(q1, dtype="float32")
            cross = x * y * numpy.float32(c)
            p = cross - cross + numpy.float32(1.5) * x
            k = numpoly.polynomial(q0 * c, dtype="int16") * numpoly.polynomial(q2, dtype="int16")
            z = k - k + numpoly.polynomial(q0, dtype="int16")
            return (numpoly.derivative(p, "q1"), numpoly.derivative(p, "q0"), numpoly.derivative(z, "q2"),
                    numpoly.gradient(z), p * y, z + k)
        if which == 4:
            p = numpoly.polynomial([[q0 * q2, c], [q1 - q1, q2 ** n]])
            return p.T, numpoly.sum(p, axis=0), numpoly.prod(p, axis=1), p @ p, numpoly.diag(p)
        if (c + n) % 2:
            # every term of one indeterminate cancels; evaluate with a float for it
            p = (q0 + c) - q0
            w = numpoly.polynomial([q0 * n + 1, 2 * q0]) - numpoly.polynomial([n, 2]) * q0
            return p(0.5), p(numpy.float32(2)), w(0.25), w(numpy.array([0.5, 1.5]))
        p = c * q0 ** n * q1 - q2
        z = p - p
        return z, z + 1, pickle.loads(pickle.dumps(z)), (p * z).tonumpy()
    if name == "finite":
        return numpoly.isfinite(a), numpy.isfinite(a), numpoly.isfinite(b)
    if name == "getset":
        # what indexing returns is the caller's own object: writing into its storage must not
        # reach the array it was taken from (the source is part of the compared result)
        parts = [a[..., None] if a.ndim else a[None], a.ravel(), a.T, list(a)[:2] if a.ndim else None,
                 a[0] if a.ndim else a[()], a[...], a[::-1] if a.ndim else None]
        taken = a[0:1] if a.ndim else a[...]
        raw = taken.values
        raw[raw.dtype.names[0]] = 77
        return parts, a, numpoly.polynomial(a) + 0
    raise ValueError(name)


def fingerprint(value, depth=0):
    """Option-independent content of a result: models by name, shapes, dtypes."""
    import numpoly

    if isinstance(value, numpoly.ndpoly):
        return ("poly", tuple(value.shape), str(value.dtype), M.abstract(value))
    if isinstance(value, numpy.ndarray):
        if value.dtype.names is not None:
            return ("raw", str(value.dtype))
        return ("arr", tuple(value.shape), str(value.dtype), value.copy())
    if isinstance(value, (list, tuple)) and depth < 5:
        return ("seq", [fingerprint(v, depth + 1) for v in value])
    if isinstance(value, (numpy.generic, int, float, complex, bool)):
        arr = numpy.asarray(value)  # a numpy scalar and a 0-d array denote the same result
        return ("arr", (), str(arr.dtype), arr)
    if value is None:
        return ("none",)
    if isinstance(value, numpy.dtype):
        return ("dtype", str(value))
    return ("other", type(value).__name__)


def compare(f0, f1, exact, path="result"):
    if f0[0] != f1[0]:
        return f"{path}: kind {f1[0]} under the setting, {f0[0]} under defaults"
    kind = f0[0]
    if kind == "poly":
        if f0[1] != f1[1]:
            return f"{path}: shape {f1[1]} != {f0[1]}"
        if f0[2] != f1[2]:
            return f"{path}: dtype {f1[2]} != {f0[2]}"
        text = M.diff_arrays(f1[3], f0[3], rtol=None if exact else 1e-9)
        return f"{path}: {text} (got = under the setting, expected = under defaults)" if text else None
    if kind == "arr":
        if f0[1] != f1[1]:
            return f"{path}: shape {f1[1]} != {f0[1]}"
        if f0[2] != f1[2]:
            return f"{path}: dtype {f1[2]} != {f0[2]}"
        same = numpy.array_equal(f0[3], f1[3]) if exact or f0[3].dtype.kind in "biu" else \
            numpy.allclose(f0[3], f1[3], rtol=1e-9, atol=1e-12, equal_nan=True)
        return None if same else f"{path}: values {f1[3].tolist()!r:.200} != {f0[3].tolist()!r:.200}"
    if kind == "seq":
        if len(f0[1]) != len(f1[1]):
            return f"{path}: {len(f1[1])} items != {len(f0[1])}"
        for i, (x, y) in enumerate(zip(f0[1], f1[1])):
            text = compare(x, y, exact, f"{path}[{i}]")
            if text:
                return text
        return None
    if kind == "num":
        same = numpy.array_equal(f0[1], f1[1]) if exact else numpy.allclose(f0[1], f1[1], rtol=1e-9)
        return None if same else f"{path}: {f1[1]} != {f0[1]}"
    return None if f0 == f1 else f"{path}: {f1} != {f0}"


def execute(case, real):
    if case["op"] in C.OPS:
        return catrun.execute(C.OPS[case["op"]], case.get("spelling", "numpoly"), real, case["kw"])
    return run_extra(case, real)


def run_case(case, ctx):
    import numpoly

    setting = case["setting"]
    name = case["op"]
    bools = {k: v for k, v in setting.items() if k in BOOL_OPTIONS}
    defaults = numpoly.get_options()
    changed = {k: v for k, v in setting.items() if defaults.get(k) != v}
    if name in ORDER_BASED and any(k in changed for k in SORT_OPTIONS):
        setting = {k: v for k, v in setting.items() if k not in SORT_OPTIONS}
    if name == "poly_divmod":
        setting = {k: v for k, v in setting.items() if k not in RETAIN_OPTIONS}
    if name == "program" and case["kw"].get("which") == 6:
        # (this program names indeterminates whose terms cancel: with retain_names off they are
        # legitimately gone and cannot be designated)
        setting = {k: v for k, v in setting.items() if k != "retain_names"}
    changed = {k: v for k, v in setting.items() if defaults.get(k) != v}
    specs = case["operands"]
    exact = all(G.spec_features(s)["coef"] in ("int", "int64", "bool") for s in specs) and \
        name not in ("mean", "divmod", "poly_divmod", "call")
    facts = {"op": name, "changed": ",".join(sorted(changed)),
             "retain_names": setting.get("retain_names", True),
             "retain_coefficients": setting.get("retain_coefficients", False)}
    sig = (name, tuple(sorted(changed.items())))
    try:
        real = [G.build(s) for s in specs]
        ref = execute(case, real)
        f0 = fingerprint(ref)
    except Exception as err:  # fails under defaults too: not a configuration issue
        ctx.count("skipped_fails_under_defaults")
        return
    ctx.evaluated(sig, bool(changed))
    ctx.count(f"op_{name}")
    try:
        real = [G.build(s) for s in specs]
        with numpoly.global_options(**setting):
            got = execute(case, real)
            f1 = fingerprint(got)
            # no operation changes the option set it runs under
            now = numpoly.get_options()
            want_options = dict(defaults, **setting)
            if now != want_options:
                moved = {k: (now.get(k), want_options.get(k)) for k in set(now) | set(want_options)
                         if now.get(k) != want_options.get(k)}
                ctx.violation(dict(facts, failure="options_changed"),
                              f"{name}: the operation left the global options changed: {moved}", case)
                return
    except Exception as err:  # pylint: disable=broad-except
        facts["failure"] = exc_fact(err)
        ctx.violation(facts, f"{name} fails under {changed} but works under defaults: "
                             f"{type(err).__name__}: {err}\n{tb_short(err)}", case)
        return
    finally:
        numpoly.set_options(**defaults)
    text = compare(f0, f1, exact)
    if text:
        facts["failure"] = "shape" if "shape" in text else ("dtype" if "dtype" in text else "value")
        ctx.violation(facts, f"{name} under {changed}: {text}", case)


def run(spec, ctx):
    if "replay_case" in spec:
        ctx.run_case(spec["replay_case"], lambda c: run_case(c, ctx))
        return
    g = G.Gen(spec["seed"] * 1000003 + spec["part"] * 7919 + 15)
    cg = C.ConstGen(0)
    cg.rng = g.rng
    names = [n for n in C.OPS if n not in SKIP] + EXTRA_OPS
    for i in range(spec["per_op"]):
        for name in names:
            if name in C.OPS:
                gen = cg if C.OPS[name].group == "mirror" else g
                case = catrun.gen_case(gen, name)
            else:
                case = gen_extra(g, name)
            case["setting"] = pick_setting(g, spec["tier"])
            if i == 0 and spec["part"] == 0 and name in ("ring", "concatenate", "derivative"):
                ctx.sample(case)
            ctx.run_case(case, lambda c: run_case(c, ctx))
