"""C13: pickle, copy and text save/load round-trip polynomial arrays."""
from __future__ import annotations

import copy
import io
import os
import pathlib
import pickle
import shutil
import tempfile

import numpy

from vf import gen as G
from vf import model as M
from vf import oracle as O

META = {
    "level": "exploration",
    "rule": (
        "seeded polynomial arrays (int / float / complex for pickle+copy, int / float for text; 1-4 "
        "names incl. q10; shapes 0-d, size-1, 1-d..3-d; single-term, zero and multi-term "
        "polynomials; transposed views) x route: pickle protocols 0-5, copy.copy, copy.deepcopy, "
        ".copy() (must reproduce shape, dtype, names, exponents and coefficients exactly) and "
        "numpoly.savetxt / numpy.savetxt -> numpoly.loadtxt over fmt x delimiter x header x "
        "comments x target kind (StringIO, BytesIO, str path, Path) (shape, names, values to the "
        "precision of fmt); files without the numpoly header must load like numpy.loadtxt. "
        "signature = (route, shape, #terms class, dtype, format settings); non-trivial when the "
        "case is not a 1-d three-term array (the suite's only case)"
    ),
    "assumptions": ["text round trips compare values with the precision implied by fmt"],
    "min_evaluations": {"quick": 8000, "thorough": 100000},
    "required_counters": ["text_roundtrips", "pickle_roundtrips"],
}
FMTS = [("%.18e", 1e-14), ("%.6e", 2e-6), ("%g", 2e-5), ("%.10f", 1e-9), ("%.3f", 2e-3)]


def shards(tier, seed):
    n = 8 if tier == "quick" else 16
    per = 1500 if tier == "quick" else 8000
    return [{"part": i, "n": per} for i in range(n)]


def facts_of_case(case):
    return {"op": case.get("route", "?")}


def gen_case(g):
    rng = g.rng
    route = rng.choice(["pickle", "pickle", "copy", "deepcopy", "copy_method", "text", "text", "text",
                        "plain_text"])
    shape = rng.choice([(), (), (1,), (1,), (3,), (2, 3), (1, 1), (2, 1, 2), (4,), (1, 3)])
    nterms = rng.choice([0, 1, 1, 2, 3, 4])
    if route in ("text", "plain_text"):
        kind = rng.choice(["int", "float"])
    else:
        kind = rng.choice(["int", "float", "complex"])
    names = rng.choice([["q0"], ["q1"], ["q0", "q1"], ["q2", "q10"], ["q0", "q1", "q2"],
                        ["q0", "q1", "q2", "q3"], ["q10"]])
    poly = g.poly(shape=shape, names=names, kind=kind, nterms=nterms, maxexp=rng.choice([2, 3, 9]),
                  via=rng.choice(["attrs", "attrs", "retain"]))
    case = {"route": route, "poly": poly}
    if route == "pickle":
        case["protocol"] = rng.choice([0, 1, 2, 3, 4, 5])
    if route in ("text", "plain_text"):
        fmt = rng.choice(FMTS)
        case.update({"fmt": fmt[0], "tol": fmt[1],
                     "delimiter": rng.choice([" ", " ", ",", ";", "\t"]),
                     "header": rng.choice(["", "", "my header", "two\nlines"]),
                     "comments": rng.choice(["# ", "# ", "% ", "#"]),
                     "target": rng.choice(["stringio", "bytesio", "str", "path"]),
                     "writer": rng.choice(["numpoly", "numpoly", "numpy"])})
        if kind == "int" and rng.random() < 0.3:
            case["fmt"], case["tol"] = "%d", 0.0
            if route == "text" and rng.random() < 0.5 and poly["coefs"]:
                # integers beyond 2**53 written with all their digits and read back as integers
                big = 2 ** 53 + 1
                poly["coefs"][0] = G.nested_map(lambda v: (big + v) if v >= 0 else -(big - v),
                                                poly["coefs"][0])
                case["load_dtype"] = "int64"
        if case["target"] in ("stringio", "bytesio") and route == "text" and rng.random() < 0.35:
            case["sequential"] = True
    return case


def exact_same(a, b):
    """None when b reproduces a exactly (representation included)."""
    if type(b) is not type(a):
        return f"type {type(b).__name__} != {type(a).__name__}"
    if tuple(a.shape) != tuple(b.shape):
        return f"shape {b.shape} != {a.shape}"
    if a.dtype != b.dtype:
        return f"dtype {b.dtype} != {a.dtype}"
    if tuple(a.names) != tuple(b.names):
        return f"names {b.names} != {a.names}"
    # all-zero non-constant terms may legitimately be pruned (ndpoly.__reduce__
    # rebuilds with retain_coefficients=False by design): compare the rest
    def rows(p):
        return {tuple(r): numpy.asarray(c).tobytes()
                for r, c in zip(p.exponents.tolist(), p.coefficients)
                if numpy.any(c) or not any(r) and not prune_zero}
    prune_zero = True
    rows_a, rows_b = rows(a), rows(b)
    if rows_a != rows_b:
        only_a = sorted(set(rows_a) - set(rows_b))
        only_b = sorted(set(rows_b) - set(rows_a))
        return f"exponents/coefficients differ (only before: {only_a[:3]}, only after: {only_b[:3]})"
    return None


def run_case(case, ctx, scratch):
    import numpoly

    spec = case["poly"]
    poly = G.build(spec)
    pm = G.model(spec)
    route = case["route"]
    nterms = len(spec["exps"])
    facts = {"op": route, "ndim": len(spec["shape"]), "size": int(numpy.prod(spec["shape"] or [1])),
             "n_terms": len(poly.keys), "view": bool(spec.get("view")), "coef_kind": spec["kind"]}
    nontrivial = not (len(spec["shape"]) == 1 and nterms == 3)
    if route in ("pickle", "copy", "deepcopy", "copy_method"):
        sig = (route, tuple(spec["shape"]), min(nterms, 3), spec["kind"], case.get("protocol"),
               len(spec["names"]))
        ctx.evaluated(sig, nontrivial)
        ctx.count("pickle_roundtrips" if route == "pickle" else "copy_roundtrips")
        try:
            if route == "pickle":
                facts["protocol"] = case["protocol"]
                back = pickle.loads(pickle.dumps(poly, protocol=case["protocol"]))
            elif route == "copy":
                back = copy.copy(poly)
            elif route == "deepcopy":
                back = copy.deepcopy(poly)
            else:
                back = poly.copy()
        except Exception as err:  # pylint: disable=broad-except
            O.report_exception(ctx, facts, err, case, what=route)
            return
        try:
            text = exact_same(poly, back)
        except Exception as err:  # pylint: disable=broad-except
            text = f"the object obtained cannot be read: {type(err).__name__}: {err}"
        if text is None:
            problem = O.mismatch(back, pm)
            text = problem[1] if problem else None
        if text:
            facts["failure"] = "roundtrip"
            ctx.violation(facts, f"{route}: {text}\n  original={M.describe(pm, 300)}", case)
            return
        # the copy must be detached
        if back.size and route != "copy":
            try:
                before = numpy.asarray(poly).tobytes()
                numpy.asarray(back).view(numpy.uint8).reshape(-1)[...] = 0
                if numpy.asarray(poly).tobytes() != before:
                    facts["failure"] = "aliased"
                    ctx.violation(facts, f"{route}: writing to the copy changed the original", case)
            except ValueError:
                pass
        return
    # text routes ----------------------------------------------------------------
    target = case["target"]
    kwargs = {"fmt": case["fmt"], "delimiter": case["delimiter"], "header": case["header"],
              "comments": case["comments"]}
    facts.update({"target": target, "writer": case["writer"], "fmt": case["fmt"],
                  "header": bool(case["header"])})
    sig = (route, tuple(spec["shape"]), min(nterms, 3), spec["kind"], case["fmt"], case["delimiter"],
           bool(case["header"]), case["comments"], target, case["writer"])
    ctx.evaluated(sig, nontrivial)
    path = os.path.join(scratch, f"f{ctx.case_index}.txt")
    if route == "plain_text":
        # a file without the numpoly header loads as a plain array
        data = numpy.atleast_1d(numpy.asarray(poly.coefficients[0], dtype=float))
        if data.ndim > 2:
            data = data.reshape(data.shape[0], -1)
        ctx.count("plain_text")
        try:
            numpy.savetxt(path, data, fmt=case["fmt"], delimiter=case["delimiter"],
                          header=case["header"], comments=case["comments"])
            want = numpy.loadtxt(path, delimiter=case["delimiter"], comments=case["comments"])
            got = numpoly.loadtxt(path, delimiter=case["delimiter"], comments=case["comments"])
        except Exception as err:  # pylint: disable=broad-except
            O.report_exception(ctx, facts, err, case, what="plain text load")
            return
        if isinstance(got, numpoly.ndpoly) or numpy.shape(got) != numpy.shape(want) or \
                not numpy.array_equal(got, want):
            facts["failure"] = "plain"
            ctx.violation(facts, f"file without numpoly header: got {got!r:.200}, numpy.loadtxt gives "
                                 f"{want!r:.200}", case)
        return
    ctx.count("text_roundtrips")
    load_kw = {"dtype": case["load_dtype"]} if case.get("load_dtype") else {}
    if load_kw:
        ctx.count("text_big_integers")
        facts["load_dtype"] = case["load_dtype"]
    writer = numpoly.savetxt if case["writer"] == "numpoly" else numpy.savetxt
    try:
        if target in ("stringio", "bytesio") and case.get("sequential"):
            # two arrays written one after the other into the same handle and read back in order:
            # the second load starts where the first one stopped, not at the top of the file
            ctx.count("text_sequential")
            facts["sequential"] = True
            handle = io.StringIO() if target == "stringio" else io.BytesIO()
            q0, q1 = numpoly.variable(2)
            first = numpoly.polynomial([3 * q0 ** 2 + 1, q0 * q1 - 2, 5])
            writer(handle, first, **kwargs)
            writer(handle, poly, **kwargs)
            handle.seek(0)
            head = numpoly.loadtxt(handle, delimiter=case["delimiter"], comments=case["comments"],
                                   max_rows=first.size, **load_kw)
            if not isinstance(head, numpoly.ndpoly) or head.shape != first.shape or \
                    M.diff_arrays(M.abstract(head), M.abstract(first), rtol=1e-6):
                facts["failure"] = "value"
                ctx.violation(facts, f"first of two arrays in one handle loaded as {head!r:.200}", case)
                return
            back = numpoly.loadtxt(handle, delimiter=case["delimiter"], comments=case["comments"],
                                   max_rows=max(poly.size, 1), **load_kw)
            src = None
        elif target == "stringio":
            handle = io.StringIO()
            writer(handle, poly, **kwargs)
            handle.seek(0)
            src = handle
        elif target == "bytesio":
            handle = io.BytesIO()
            writer(handle, poly, **kwargs)
            handle.seek(0)
            src = handle
        elif target == "str":
            writer(path, poly, **kwargs)
            src = path
        else:
            writer(pathlib.Path(path), poly, **kwargs)
            src = pathlib.Path(path)
        if src is not None:
            back = numpoly.loadtxt(src, delimiter=case["delimiter"], comments=case["comments"],
                                   **load_kw)
    except Exception as err:  # pylint: disable=broad-except
        O.report_exception(ctx, facts, err, case, what=f"text round trip via {case['writer']}.savetxt")
        return
    if not isinstance(back, numpoly.ndpoly):
        facts["failure"] = "type"
        ctx.violation(facts, f"loadtxt returned {type(back).__name__} {back!r:.200}", case)
        return
    if tuple(back.shape) != tuple(poly.shape):
        facts["failure"] = "shape"
        ctx.violation(facts, f"shape after text round trip {back.shape} != {poly.shape}", case)
        return
    if tuple(back.names) != tuple(poly.names):
        facts["failure"] = "names"
        ctx.violation(facts, f"names after text round trip {back.names} != {poly.names}", case)
        return
    tol = case["tol"]
    try:
        bm = M.abstract(back)
    except Exception as err:  # pylint: disable=broad-except
        facts["failure"] = "malformed"
        ctx.violation(facts, f"loaded polynomial unreadable: {err}", case)
        return
    for idx in numpy.ndindex(*pm.shape):
        delta = bm[idx] - pm[idx]
        scale = max(1.0, pm[idx].max_abs())
        limit = tol * scale if "e" in case["fmt"] or "g" in case["fmt"] else tol
        if delta.max_abs() > limit:
            facts["failure"] = "value"
            ctx.violation(facts, f"element {idx}: loaded {bm[idx]} saved {pm[idx]} (fmt {case['fmt']})",
                          case)
            return


def run(spec, ctx):
    scratch = tempfile.mkdtemp(prefix="numpoly-verif-c13-")
    try:
        if "replay_case" in spec:
            ctx.run_case(spec["replay_case"], lambda c: run_case(c, ctx, scratch))
            return
        g = G.Gen(spec["seed"] * 1000003 + spec["part"] * 7919 + 13)
        for i in range(spec["n"]):
            case = gen_case(g)
            if i < 3 and spec["part"] == 0:
                ctx.sample(case)
            ctx.run_case(case, lambda c: run_case(c, ctx, scratch))
            if i % 200 == 0:
                for name in os.listdir(scratch):
                    os.remove(os.path.join(scratch, name))
    finally:
        shutil.rmtree(scratch, ignore_errors=True)
