"""C17: operations never modify their arguments.

M-IMM: byte-level snapshot of every array / polynomial argument at call entry
(sys.monitoring PY_START on numpoly's code objects), compared at return *and at
unwind*; boundary calls in the quick tier, all internal calls too (deep mode)
in the thorough tier; plus a dedicated pass with harness-level snapshots over
aligned operands, the same object twice, raising calls and calls aborted by
injected faults.
"""
from __future__ import annotations

import importlib
import random

import numpy

from vf import catalogue as C
from vf import catrun
from vf import gen as G
from vf import oracle as O
from vf.harness import exc_fact, tb_short
from vf.monitors.immut import changed, snapshot
from vf.props.c03 import Sink, borrowed_case, run_borrowed, run_suite, SOURCES

META = {
    "level": "exploration",
    "rule": (
        "M-IMM snapshots shape, dtype, names, keys and bytes of every array / polynomial argument "
        "(recursing into lists, tuples, dicts) of every monitored numpoly call and compares them "
        "when the call returns or unwinds; exempt by rule: parameters named out, copyto's dst, "
        "__array_finalize__/__new__. Workloads: the borrowed cases of C01/C02/C05/C06/C19 and the "
        "operation catalogue and the repository's own test-suite as workload (boundary calls in "
        "quick, all internal calls in thorough), a direct "
        "pass calling every catalogue entry and public poly function with already aligned "
        "operands, the same object for both operands, read-only-free views, and arguments that "
        "make the call raise (unknown names, non-broadcastable shapes, duplicate exponents, "
        "tonumpy of a non-constant, numeric division by a polynomial), and calls aborted half-way "
        "by failpoints (sys.monitoring LINE) after which every argument must be byte-identical. "
        "signature = (callable, aliasing pattern, outcome returned/raised/aborted); non-trivial "
        "when the call has >= 1 array or polynomial argument"
    ),
    "assumptions": ["in-place operators and explicit output targets are outside the claim"],
    "min_evaluations": {"quick": 20000, "thorough": 400000},
    "required_counters": ["immut_comparisons", "direct_calls", "raising_calls", "aborted_calls"],
}
EXEMPT_FUNCS = ("__array_finalize__", "__new__", "__init__")
EXEMPT_PARAMS = {"out"}
SHARD_TIMEOUT = {"quick": 900, "thorough": 7200}


def shards(tier, seed):
    n = 6 if tier == "quick" else 12
    out = [{"kind": "ride", "part": i, "n": 600 if tier == "quick" else 4000,
            "deep": tier == "thorough"} for i in range(n)]
    if tier == "quick":  # a small deep-mode (all internal calls) sample in the quick tier too
        out += [{"kind": "ride", "part": 100 + i, "n": 150, "deep": True} for i in range(2)]
    out += [{"kind": "direct", "part": i, "n": 500 if tier == "quick" else 6000} for i in range(2)]
    out.append({"kind": "fault", "part": 0, "n": 40 if tier == "quick" else 400})
    out.append({"kind": "suite", "part": 0, "deep": tier == "thorough"})
    return out


def facts_of_case(case):
    return {"op": case.get("source", case.get("op", "?"))}


class ImmutMonitor:
    def __init__(self, ctx, deep):
        from vf.monitors.api import ApiMonitor

        self.ctx = ctx
        self.current = None
        self.api = ApiMonitor(on_enter=self.on_enter, on_exit=self.on_exit, boundary_only=not deep)

    def on_enter(self, name, code, args, boundary):
        short = name.rsplit(".", 1)[-1]
        if short in EXEMPT_FUNCS:
            return None
        if short in ("__array_function__", "__array_ufunc__"):
            # dispatch entry points: explicit output targets travel inside args/kwargs
            func = args.get("func", args.get("ufunc"))
            kwargs = args.get("kwargs") or {}
            if getattr(func, "__name__", "") == "copyto" or kwargs.get("out") is not None:
                return None
        snaps = {}
        # objects handed over as explicit output targets (also when the same object is an input)
        targets = set()
        out_arg = args.get("out")
        if short == "copyto":
            out_arg = args.get("dst")
        for item in (out_arg if isinstance(out_arg, (tuple, list)) else [out_arg]):
            if item is not None:
                targets.add(id(item))
        for value in args.values():
            if isinstance(value, dict) and value.get("out") is not None:
                item = value["out"]
                for sub in (item if isinstance(item, (tuple, list)) else [item]):
                    targets.add(id(sub))
        count = code.co_argcount + code.co_kwonlyargcount
        varkw = None
        if code.co_flags & 0x08:
            varkw = code.co_varnames[count + (1 if code.co_flags & 0x04 else 0)]
        for param, value in args.items():
            if param in EXEMPT_PARAMS or (short == "copyto" and param == "dst"):
                continue
            if param == varkw and isinstance(value, dict):
                # the **kwargs dict itself is the callee's own object; its values are the caller's
                for key, item in value.items():
                    if id(item) in targets:
                        continue
                    if key not in EXEMPT_PARAMS and isinstance(item, (numpy.ndarray, list, tuple, dict)):
                        snaps[f"{param}[{key}]"] = (item, snapshot(item))
                continue
            if id(value) in targets:
                continue
            if isinstance(value, (numpy.ndarray, list, tuple, dict)):
                if isinstance(value, (list, tuple)) and any(id(v) in targets for v in value):
                    continue
                snaps[param] = (value, snapshot(value))
        return snaps or None

    def on_exit(self, name, token, boundary, value, exc):
        if not token:
            return
        ctx = self.ctx
        outcome = "raised" if exc is not None else "returned"
        short = name.replace("numpoly.", "")
        for param, (obj, before) in token.items():
            ctx.count("immut_comparisons")
            diff = changed(before, snapshot(obj))
            if diff:
                ctx.violation({"op": short, "param": param, "outcome": outcome, "failure": "mutated",
                               "boundary": boundary},
                              f"{name}: argument '{param}' modified while the call {outcome}: {diff}",
                              self.current)
        ctx.evaluated((short, outcome, boundary, tuple(sorted(token))), True)


def run_ride(spec, ctx):
    from vf.monitors.step import StepMonitor

    monitor = ImmutMonitor(ctx, spec.get("deep", False))
    step = StepMonitor(budget=3000)
    sink = Sink()
    g = G.Gen(spec["seed"] * 1000003 + spec["part"] * 7919 + 17)
    cg = C.ConstGen(0)
    cg.rng = g.rng
    step.attach()
    monitor.api.attach()
    try:
        if "replay_case" in spec:
            monitor.current = spec["replay_case"]
            ctx.run_case(spec["replay_case"], lambda w: run_borrowed(w, sink, step))
            return
        for i in range(spec["n"]):
            wrapped = borrowed_case(g, cg, SOURCES[i % len(SOURCES)])
            monitor.current = wrapped
            sink.case_index = i
            if i < 1 and spec["part"] == 0:
                ctx.sample({"source": wrapped["source"], "note": "borrowed workload case",
                            "mode": "deep" if spec.get("deep") else "boundary"})
            ctx.run_case(wrapped, lambda w: run_borrowed(w, sink, step))
        ctx.count("api_calls_monitored", monitor.api.calls)
        ctx.count("api_functions_seen", len(monitor.api.per_function))
    finally:
        monitor.api.detach()
        step.detach()


# ---------------------------------------------------------------------------
POLY_FUNCS = ["derivative", "gradient", "hessian", "poly_divmod", "poly_divide", "poly_remainder",
              "lead_exponent", "lead_coefficient", "sortable_proxy", "decompose", "isconstant",
              "set_dimensions", "align_polynomials", "align_exponents", "align_indeterminants",
              "align_shape", "call", "equal", "not_equal", "str", "pickle", "aspolynomial", "clean",
              "boolpoly", "boolpoly", "astype_ops", "where_kw", "where_kw", "sequence",
              "numeric_args", "numeric_args", "copyto_poly", "foreign_arrays", "print_small",
              "scalar_axis", "save_negzero"]


class ArgumentMutated(Exception):
    """Raised by a direct workload that compares its own temporaries."""
RAISERS = ["unknown_name", "bad_shapes", "duplicate_exponents", "tonumpy_nonconstant",
           "numeric_division", "matmul_scalar", "bad_axis", "double_name"]


def direct_case(g):
    rng = g.rng
    roll = rng.random()
    if roll < 0.45:
        name = rng.choice(list(C.OPS))
        gen = g
        if C.OPS[name].group == "mirror":
            gen = C.ConstGen(0)
            gen.rng = g.rng
        case = catrun.gen_case(gen, name)
        case["kind"] = "catalogue"
    elif roll < 0.8:
        shape = g.shape(2)
        kind = rng.choice(["int", "float"])
        names = rng.choice([["q0"], ["q0", "q1"], ["q0", "q1", "q2"]])
        a = g.poly(shape=shape, names=names, kind=kind, maxexp=3)
        b = g.poly(shape=rng.choice([shape, ()]), names=names, kind=kind, maxexp=2, allow_views=False)
        case = {"kind": "polyfunc", "op": rng.choice(POLY_FUNCS), "operands": [a, b], "kw": {}}
        if case["op"] == "boolpoly":
            a = g.poly(shape=shape, names=names, kind="bool", maxexp=2, nterms=rng.choice([2, 3, 4]))
            b = g.poly(shape=rng.choice([shape, ()]), names=names, kind="bool", maxexp=2,
                       allow_views=False)
            case["operands"] = [a, b]
        if case["op"] == "copyto_poly":
            # several terms, stored in the caller's (shuffled) order
            a = g.poly(shape=shape, names=names, kind=kind, maxexp=3, nterms=rng.choice([3, 4, 5]),
                       via="retain", allow_views=False)
            case["operands"] = [a, b]
    else:
        shape = g.shape(2)
        a = g.poly(shape=shape, kind="int", maxexp=2)
        case = {"kind": "raiser", "op": rng.choice(RAISERS), "operands": [a, g.poly(shape=(), kind="int")],
                "kw": {}}
    case["alias"] = rng.choice(["none", "none", "aligned", "same"])
    return case


def call_polyfunc(numpoly, name, a, b):
    import pickle

    if name in ("derivative",):
        return numpoly.derivative(a, a.names[0])
    if name in ("gradient", "hessian", "lead_exponent", "lead_coefficient", "sortable_proxy",
                "decompose", "isconstant"):
        return getattr(numpoly, name)(a)
    if name in ("poly_divmod", "poly_divide", "poly_remainder"):
        return getattr(numpoly, name)(a, b)
    if name == "set_dimensions":
        return numpoly.set_dimensions(a, 1), numpoly.set_dimensions(a, 4)
    if name.startswith("align_"):
        return getattr(numpoly, name)(a, b)
    if name == "call":
        return a(**{a.names[0]: b}), a(*[1] * len(a.names))
    if name == "equal":
        return a == b, numpoly.equal(a, b)
    if name == "not_equal":
        return a != b, numpoly.not_equal(a, b)
    if name == "str":
        return str(a), repr(b)
    if name == "pickle":
        return pickle.loads(pickle.dumps(a))
    if name == "aspolynomial":
        return numpoly.aspolynomial(a), numpoly.polynomial(a), numpoly.aspolynomial(a, dtype=float)
    if name == "boolpoly":
        # polynomials with bool coefficients (dtype-specific code paths)
        return (numpoly.any(a), numpoly.all(a), numpy.any(a, axis=0) if a.ndim else None,
                numpoly.count_nonzero(a), numpoly.nonzero(a) if a.ndim else None,
                numpoly.logical_and(a, b), numpoly.logical_or(a, b), numpoly.where(a, b, a),
                a == b, numpoly.isconstant(a), str(a))
    if name == "where_kw":
        # rarely used where= masks (with False entries) on already aligned operands
        mask = numpy.arange(a.size).reshape(a.shape) % 2 == 0 if a.ndim else numpy.array(False)
        out = []
        for func in (lambda: numpoly.multiply(a, b, where=mask), lambda: numpy.multiply(a, 2, where=mask),
                     lambda: numpoly.square(a, where=mask), lambda: numpoly.add(a, b, where=mask),
                     lambda: numpoly.subtract(a, b, where=mask), lambda: numpoly.negative(a, where=mask),
                     lambda: numpoly.equal(a, b, where=mask), lambda: numpoly.not_equal(a, b, where=mask),
                     lambda: numpoly.sum(a, where=mask), lambda: numpoly.multiply(a, a, where=mask)):
            try:
                out.append(func())
            except Exception as err:  # pylint: disable=broad-except
                out.append(type(err).__name__)
        return out
    if name == "sequence":
        # an object reused after it was passed somewhere
        d1 = numpoly.derivative(a, a.names[0])
        d2 = numpoly.derivative(a, a.names[-1])
        return d1, d2, a * b, a(**{a.names[0]: 1}), numpoly.gradient(a), a + d1
    if name == "astype_ops":
        out = []
        for dtype in ("bool", "int8", "float32", "complex128", "uint32"):
            c = a.astype(dtype)
            before = snapshot(c)
            out.append((numpoly.any(c), numpoly.sum(c), c + c, c * c, abs(c) if dtype != "bool" else c))
            if changed(before, snapshot(c)):
                raise ArgumentMutated(f"argument of dtype {dtype} modified")
        return out
    if name == "copyto_poly":
        # a polynomial source (terms in whatever order it stores them) copied into a destination
        # that has storage for all of them: only the destination may change
        out = []
        for source in (a, numpoly.variable(3)[:2] if a.ndim == 0 else a, b):
            dst = numpoly.polynomial_from_attributes(
                source.exponents, [numpy.zeros(source.shape, dtype=source.dtype)] * len(source.exponents),
                names=source.names, dtype=source.dtype, retain_coefficients=True, retain_names=True)
            before = snapshot(source)
            for func in (numpoly.copyto, numpy.copyto):
                try:
                    func(dst, source)
                except Exception as err:  # pylint: disable=broad-except
                    out.append(type(err).__name__)
            # ... and the error path: a destination that lacks one of the terms
            if len(source.exponents) > 1:
                small = numpoly.polynomial_from_attributes(
                    source.exponents[:1], [numpy.zeros(source.shape, dtype=source.dtype)],
                    names=source.names, retain_coefficients=True, retain_names=True)
                try:
                    numpoly.copyto(small, source)
                except Exception as err:  # pylint: disable=broad-except
                    out.append(type(err).__name__)
            if changed(before, snapshot(source)):
                raise ArgumentMutated(f"copyto modified its source: {changed(before, snapshot(source))}")
            out.append(dst)
        return out
    if name == "foreign_arrays":
        # numeric arrays in non-native byte order / unusual layouts as operands and as data
        out = []
        shape = a.shape or (2,)
        base = numpy.arange(1, int(numpy.prod(shape)) + 1).reshape(shape)
        for dtype in (">f8", ">i8", ">i4", ">c16", "<f4"):
            arr = base.astype(dtype)
            before = snapshot(arr)
            calls = (lambda: numpoly.polynomial(arr), lambda: numpoly.aspolynomial(arr),
                     lambda: a + arr, lambda: numpoly.multiply(a, arr), lambda: a == arr,
                     lambda: numpoly.polynomial_from_attributes([[0], [1]], [arr, arr]),
                     lambda: a(*([arr] + [1] * (len(a.names) - 1))), lambda: numpoly.sum(arr * a))
            for func in calls:
                try:
                    out.append(func())
                except Exception as err:  # pylint: disable=broad-except
                    out.append(type(err).__name__)
                if changed(before, snapshot(arr)):
                    raise ArgumentMutated(f"array of dtype {dtype} modified: now {arr.tolist()!r:.80}")
        return out
    if name == "numeric_args":
        # numeric arrays passed as axes / shapes / repeats / indices / evaluation points,
        # with negative entries, read-write and C-contiguous (so that asarray() is no copy)
        nd = max(a.ndim, 1)
        cube = a if a.ndim else numpoly.polynomial([a, a])
        perm = numpy.arange(nd, dtype=int) - nd
        point = numpy.array([-1.0, 2.0, 0.5])
        ipoint = numpy.array([-1, 2, 3], dtype=numpy.int64)
        calls = [
            ("transpose axes", perm, lambda: numpoly.transpose(cube, perm)),
            ("numpy.transpose axes", perm, lambda: numpy.transpose(cube, perm)),
            ("transpose bad axes", perm + 0, None),
            ("moveaxis source", perm, lambda: numpoly.moveaxis(cube, perm, numpy.arange(nd))),
            ("reshape shape", numpy.array([-1], dtype=int), None),
            ("repeat repeats", numpy.array([1] * cube.shape[0], dtype=int), None),
            ("tile reps", numpy.array([1, 2], dtype=int), None),
            ("split indices", numpy.array([-1], dtype=int), None),
            ("sum axis", numpy.array(-1), None),
            ("call float point", point, lambda: a(point)),
            ("call int point", ipoint, lambda: a(**{a.names[-1]: ipoint})),
            ("add array", ipoint, lambda: numpoly.polynomial([a.ravel()[0]] * 3) + ipoint),
            ("floor_divide array", ipoint, lambda: numpoly.floor_divide(numpoly.polynomial([4, 6, 9]), ipoint)),
            ("glexindex stop", ipoint, lambda: numpoly.glexindex(abs(ipoint))),
            ("monomial start", ipoint, lambda: numpoly.monomial(abs(ipoint) - 1, abs(ipoint) + 1)),
            ("cross_truncate", ipoint, lambda: numpoly.cross_truncate(
                numpy.abs(ipoint).reshape(1, 3), numpy.abs(ipoint) + 1, 1.0)),
        ]
        fixed = {
            "transpose bad axes": lambda arr: numpoly.transpose(cube, numpy.append(arr[:-1], 7)),
            "reshape shape": lambda arr: numpoly.reshape(cube, arr),
            "repeat repeats": lambda arr: numpoly.repeat(cube, arr, axis=0),
            "tile reps": lambda arr: numpoly.tile(cube, arr),
            "split indices": lambda arr: numpoly.split(cube, arr + cube.shape[0], axis=0),
            "sum axis": lambda arr: numpoly.sum(cube, axis=int(arr)),
        }
        out = []
        for label, arr, func in calls:
            before = snapshot(arr)
            try:
                out.append(func() if func is not None else fixed[label](arr))
            except Exception as err:  # pylint: disable=broad-except
                out.append(type(err).__name__)
            if changed(before, snapshot(arr)):
                raise ArgumentMutated(f"numeric argument modified ({label}): now {arr.tolist()}")
        # the error path: an invalid entry next to a negative one
        bad = numpy.array([-1] + list(range(1, nd - 1)) + [nd + 3], dtype=int)[:nd]
        before = snapshot(bad)
        try:
            numpoly.transpose(cube, bad)
        except Exception:  # pylint: disable=broad-except
            pass
        if changed(before, snapshot(bad)):
            raise ArgumentMutated(f"numeric argument modified (transpose, raising): now {bad.tolist()}")
        return out
    if name == "clean":
        # an operand that carries a name none of its terms uses, under every flag combination
        # (as keyword arguments and as global options)
        wide = numpoly.set_dimensions(a, len(a.names) + 1)
        out = [numpoly.clean_attributes(a), numpoly.clean_attributes(a, retain_names=False)]
        for target in (a, wide):
            before = snapshot(target)
            for rc in (True, False):
                for rn in (True, False):
                    for call in (
                            lambda: numpoly.clean_attributes(target, retain_coefficients=rc, retain_names=rn),
                            lambda: numpoly.clean_attributes(target),
                            lambda: numpoly.polynomial(target)):
                        try:
                            with numpoly.global_options(retain_coefficients=rc, retain_names=rn):
                                out.append(call())
                        except Exception as err:  # pylint: disable=broad-except
                            out.append(type(err).__name__)
                    if changed(before, snapshot(target)):
                        raise ArgumentMutated(
                            f"clean_attributes(retain_coefficients={rc}, retain_names={rn}) modified "
                            f"its argument: {changed(before, snapshot(target))}")
        return out
    if name == "scalar_axis":
        # 0-d operands with an explicit axis (valid: 0 / -1; invalid: 1), returning and raising
        scalars = [a if not a.ndim else a.ravel()[0], b if not b.ndim else b.ravel()[0]]
        out = []
        for scalar in scalars:
            before = snapshot(scalar)
            for fname in ("argmax", "argmin", "amax", "amin", "sum", "prod", "cumsum", "mean",
                          "max", "min", "all", "any", "count_nonzero"):
                for ns in (numpoly, numpy):
                    for axis in (0, -1, 1, None):
                        try:
                            out.append(getattr(ns, fname)(scalar, axis=axis))
                        except Exception as err:  # pylint: disable=broad-except
                            out.append(type(err).__name__)
                        if changed(before, snapshot(scalar)):
                            raise ArgumentMutated(
                                f"{ns.__name__}.{fname}(0-d polynomial, axis={axis}) modified its "
                                f"argument: {changed(before, snapshot(scalar))}")
        return out
    if name == "save_negzero":
        # writing a polynomial to text leaves every byte of it alone (negative zeros included)
        import io
        base = numpy.array([-0.0, 1.5, 0.0, -2.0])
        polys = [numpoly.polynomial_from_attributes([[0], [1]], [base, -base], names=a.names[:1]),
                 numpoly.negative(numpoly.polynomial([1.5, 0.0]) * numpoly.symbols(a.names[0]) + [0.0, 2.0]),
                 numpoly.polynomial(base[:1] * 1.0)]
        out = []
        for poly in polys:
            before = snapshot(poly)
            for writer in (numpoly.savetxt, numpy.savetxt):
                handle = io.StringIO()
                try:
                    writer(handle, poly)
                    out.append(len(handle.getvalue()))
                except Exception as err:  # pylint: disable=broad-except
                    out.append(type(err).__name__)
                if changed(before, snapshot(poly)):
                    raise ArgumentMutated(f"{writer.__module__}.savetxt changed the saved polynomial: "
                                          f"{changed(before, snapshot(poly))}")
        return out
    if name == "print_small":
        # printing with suppress_small / numpy's suppress option, on scalars with tiny coefficients
        x = numpoly.symbols(a.names[0])
        out = []
        for tiny in (3e-7 * x ** 2 + 2.5 * x + 1e-12, numpoly.polynomial([1e-9 * x + 1.0, 4e-10]),
                     numpoly.polynomial(2e-11)):
            before = snapshot(tiny)
            out.append(numpoly.array_str(tiny, suppress_small=True))
            out.append(numpoly.array_repr(tiny, suppress_small=True, precision=3))
            out.append(numpy.array_str(tiny, suppress_small=True))
            with numpy.printoptions(suppress=True, precision=4):
                out.append(str(tiny))
                out.append(repr(tiny))
            if changed(before, snapshot(tiny)):
                raise ArgumentMutated(f"printing modified the polynomial: now {tiny!r:.100}")
        return out
    raise ValueError(name)


def call_raiser(numpoly, name, a, b):
    if name == "unknown_name":
        return a(q99=1)
    if name == "double_name":
        return a(1, **{a.names[0]: 2})
    if name == "bad_shapes":
        other = numpoly.polynomial(numpy.arange(7)) * numpoly.variable()
        return a + other if a.shape not in ((), (1,), (7,)) else numpoly.concatenate([a, other], axis=3)
    if name == "duplicate_exponents":
        return numpoly.polynomial_from_attributes(
            numpy.vstack([a.exponents, a.exponents]), list(a.coefficients) * 2, a.names)
    if name == "tonumpy_nonconstant":
        return (a + numpoly.variable()).tonumpy(), a.tonumpy()
    if name == "numeric_division":
        return numpy.floor_divide(a, numpoly.variable()), numpy.remainder(a, b + numpoly.variable())
    if name == "matmul_scalar":
        return numpoly.matmul(a, 4)
    if name == "bad_axis":
        return numpoly.sum(a, axis=5)
    raise ValueError(name)


def run_direct_case(case, ctx):
    import numpoly

    real = [G.build(s) for s in case["operands"]]
    alias = case["alias"]
    if alias == "aligned" and len(real) >= 2 and all(isinstance(r, numpoly.ndpoly) for r in real[:2]):
        try:
            real[0], real[1] = numpoly.align_polynomials(real[0], real[1])
        except Exception:  # pylint: disable=broad-except
            pass
    elif alias == "same" and len(real) >= 2:
        real[1] = real[0]
    before = [snapshot(r) for r in real]
    kind = case["kind"]
    try:
        if kind == "catalogue":
            catrun.execute(C.OPS[case["op"]], case.get("spelling", "numpoly"), real, case["kw"])
        elif kind == "polyfunc":
            call_polyfunc(numpoly, case["op"], real[0], real[1])
        else:
            call_raiser(numpoly, case["op"], real[0], real[1])
        outcome = "returned"
    except ArgumentMutated as err:
        ctx.violation({"op": case["op"], "param": "temporary", "outcome": "returned",
                       "failure": "mutated", "alias": alias}, f"{case['op']}: {err}", case)
        outcome = "returned"
    except Exception as err:  # pylint: disable=broad-except
        outcome = "raised"
    ctx.count("direct_calls")
    if outcome == "raised":
        ctx.count("raising_calls")
    ctx.evaluated((kind, case["op"], alias, outcome), bool(real))
    if case["op"] == "copyto":
        return
    for n, (obj, snap) in enumerate(zip(real, before)):
        ctx.count("immut_comparisons")
        diff = changed(snap, snapshot(obj))
        if diff:
            ctx.violation({"op": case["op"], "param": n, "outcome": outcome, "failure": "mutated",
                           "alias": alias},
                          f"{case['op']} ({alias} operands): argument {n} modified while the call "
                          f"{outcome}: {diff}", case)


def run_direct(spec, ctx):
    if "replay_case" in spec:
        ctx.run_case(spec["replay_case"], lambda c: run_direct_case(c, ctx))
        return
    g = G.Gen(spec["seed"] * 1000003 + spec["part"] * 7919 + 170)
    if spec["part"] == 0:
        # every direct workload at least twice per run, on fixed operand classes (the random
        # draws below add variety, not coverage of the list)
        for name in sorted(set(POLY_FUNCS)) + sorted(set(RAISERS)):
            for shape, names in (((2,), ["q0", "q1", "q2"]), ((), ["q0", "q1"])):
                kind = "bool" if name == "boolpoly" else "int"
                a = g.poly(shape=shape, names=names, kind=kind, maxexp=3, nterms=4, allow_views=False,
                           via="retain" if name == "copyto_poly" else None)
                b = g.poly(shape=(), names=names, kind=kind, maxexp=2, nterms=2, allow_views=False)
                case = {"kind": "polyfunc" if name in POLY_FUNCS else "raiser", "op": name,
                        "operands": [a, b], "kw": {}, "alias": "none"}
                ctx.run_case(case, lambda c: run_direct_case(c, ctx))
    for i in range(spec["n"]):
        case = direct_case(g)
        if i < 2 and spec["part"] == 0:
            ctx.sample(case)
        ctx.run_case(case, lambda c: run_direct_case(c, ctx))


# ---------------------------------------------------------------------------
def run_fault(spec, ctx):
    import numpoly
    from vf.monitors.fault import FaultInjector

    rng = random.Random(spec["seed"] * 313 + 17)
    g = G.Gen(spec["seed"] * 1000003 + 171)
    injector = FaultInjector()
    injector.attach()
    try:
        for i in range(spec["n"]):
            case = direct_case(g)
            if case["kind"] == "raiser":
                continue
            case["alias"] = rng.choice(["none", "aligned", "same"])
            real = [G.build(s) for s in case["operands"]]
            if case["alias"] == "same" and len(real) >= 2:
                real[1] = real[0]
            elif case["alias"] == "aligned" and len(real) >= 2 and \
                    all(isinstance(r, numpoly.ndpoly) for r in real[:2]):
                try:
                    real[0], real[1] = numpoly.align_polynomials(real[0], real[1])
                except Exception:  # pylint: disable=broad-except
                    pass

            def body():
                if case["kind"] == "catalogue":
                    return catrun.execute(C.OPS[case["op"]], case.get("spelling", "numpoly"), real,
                                          case["kw"])
                return call_polyfunc(numpoly, case["op"], real[0], real[1])
            if case["op"] == "copyto":
                continue
            try:
                total = injector.count(body)
            except Exception:  # pylint: disable=broad-except
                continue
            if not total:
                continue
            picks = sorted(rng.sample(range(1, total + 1), min(total, 12)))
            for nth in picks:
                fcase = dict(case, nth=nth)
                if not ctx.begin(fcase):
                    continue
                before = [snapshot(r) for r in real]
                hit, exc = injector.run(body, nth)
                ctx.count("aborted_calls")
                ctx.evaluated(("fault", case["op"], hit[0] if hit else None, hit[2] if hit else None),
                              True)
                for n, (obj, snap) in enumerate(zip(real, before)):
                    ctx.count("immut_comparisons")
                    diff = changed(snap, snapshot(obj))
                    if diff:
                        ctx.violation({"op": case["op"], "param": n, "outcome": "aborted",
                                       "failure": "mutated", "alias": case["alias"]},
                                      f"{case['op']} aborted at {hit}: argument {n} left modified: "
                                      f"{diff}", fcase)
                if i == 0 and nth == picks[0]:
                    ctx.sample({**fcase, "site": hit})
                ctx.end()
        ctx.count("fault_sites", len(injector.sites))
    finally:
        injector.detach()


def run(spec, ctx):
    if "replay_case" in spec:
        case = spec["replay_case"]
        if case.get("source") == "suite":
            run_suite(spec, ctx, lambda c: ImmutMonitor(c, False))
        elif "source" in case:
            run_ride(spec, ctx)
        elif "nth" in case:
            run_fault(dict(spec, n=1), ctx)
        else:
            run_direct(spec, ctx)
        return
    if spec["kind"] == "suite":
        run_suite(spec, ctx, lambda c: ImmutMonitor(c, spec.get("deep", False)))
        return
    {"ride": run_ride, "direct": run_direct, "fault": run_fault}[spec["kind"]](spec, ctx)
