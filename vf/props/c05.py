"""C05: polynomial division terminates and satisfies dividend = q*divisor + r."""
from __future__ import annotations

import operator

import numpy

from vf import gen as G
from vf import model as M
from vf import oracle as O
from vf.harness import exc_fact, tb_short

META = {
    "level": "exploration",
    "rule": (
        "seeded dividend/divisor pairs over 1-3 indeterminates: divisors with several incomparable "
        "top terms (q1**2-2*q0), arrays whose elements have different leading terms or zero "
        "entries, exact multiples (dividend built as cofactor*divisor in the model), non-zero "
        "constants, univariate pairs, int and float coefficients, broadcasting shapes, number / "
        "list / array on the left of the operators. Monitors: M-STEP (loop back-edges of "
        "poly_divmod via sys.monitoring JUMP events: repeated running dividend = proven cycle, "
        "budget 10000 back-edges) and the exact-model identity dividend-(q*divisor+r) with "
        "tolerance 1e-9*scale; operators compared with poly_divide/poly_remainder/poly_divmod. "
        "signature = (#names, divisor class, shapes, coefficient kind, spelling); non-trivial when "
        "the divisor is non-constant with >= 2 terms"
    ),
    "assumptions": [
        "termination is decided as bounded progress (10000 loop back-edges) plus cycle detection, "
        "never on wall-clock time",
        "numpy scalars on the left of / % divmod are outside the claim (numpy's scalar operators "
        "call the ufunc directly and never reach the reflected methods)",
    ],
    "min_evaluations": {"quick": 1500, "thorough": 30000},
    "required_counters": ["loop_backedges"],
}
CLASSES = ["general", "general", "multitop", "multitop", "exact", "exact", "constant", "univariate",
           "univariate", "arraymix"]


def shards(tier, seed):
    n = 8 if tier == "quick" else 16
    per = 400 if tier == "quick" else 4000
    return [{"part": i, "n": per} for i in range(n)]


def facts_of_case(case):
    return {"op": "poly_divmod", "class": case.get("class", "?")}


def small_poly(g, shape, names, kind, nterms=None, maxexp=2):
    return g.poly(shape=shape, names=names, kind=kind, nterms=nterms or g.rng.choice([1, 2, 2, 3]),
                  maxexp=maxexp, allow_views=False, via="attrs")


def gen_case(g):
    rng = g.rng
    cls = rng.choice(CLASSES)
    kind = rng.choice(["int", "int", "float", "int", "int", "float", "complex"])
    names = rng.choice([["q0"], ["q0", "q1"], ["q0", "q1"], ["q0", "q1", "q2"], ["q1", "q2"]])
    base = rng.choice([(), (), (2,), (3,), (2, 2), (1, 3), (2, 1)])
    dshape = base
    vshape = g.compatible_shape(base) if rng.random() < 0.4 else base
    case = {"class": cls}
    if cls == "univariate":
        names = [rng.choice(["q0", "q1", "q2"])]
        dividend = small_poly(g, dshape, names, kind, nterms=rng.choice([2, 3, 4]), maxexp=5)
        divisor = small_poly(g, vshape, names, kind, nterms=rng.choice([1, 2, 3]), maxexp=3)
        if kind == "float" and rng.random() < 0.3:
            # one huge irreducible coefficient (the constant term, +-2**60) next to small
            # integer-valued ones, divided by a single power c*q**k with c a power of two: every
            # step is exact in floating point, so the small terms must be reduced exactly - a
            # cutoff relative to the largest coefficient would drop them (seed C05-r13-1)
            k = rng.choice([1, 1, 2])
            divisor = small_poly(g, vshape, names, kind, nterms=1, maxexp=2)
            divisor["exps"] = [[k]]
            divisor["coefs"] = [G.nested_map(lambda v: G.jnum(rng.choice([1.0, 2.0, -1.0, 0.5])),
                                             divisor["coefs"][0])]
            rows = [list(r) for r in dividend["exps"]]
            coefs = [G.nested_map(lambda v: G.jnum(float(rng.choice([1, 2, -3, 4]))), c)
                     for c in dividend["coefs"]]
            big = G.nested_map(lambda v: G.jnum(rng.choice([2.0 ** 60, -2.0 ** 60])), coefs[0])
            if [0] in rows:
                coefs[rows.index([0])] = big
            else:
                rows.append([0])
                coefs.append(big)
            dividend["exps"], dividend["coefs"] = rows, coefs
            dividend.pop("view", None)
            divisor.pop("view", None)
            case["exact_fp"] = True
    elif cls == "constant":
        dividend = small_poly(g, dshape, names, kind, nterms=rng.choice([2, 3]), maxexp=3)
        if rng.random() < 0.5:
            divisor = g.const_operand(shape=vshape, kind=kind)
        else:
            divisor = g.poly(shape=vshape, names=names, kind=kind, nterms=0, allow_views=False)
            divisor["exps"] = [[0] * len(names)]
            divisor["coefs"] = [G.nested_map(G.jnum, g.array_data(vshape, kind, zero_prob=0.15))]
    elif cls == "exact":
        divisor = small_poly(g, vshape, names, kind, nterms=rng.choice([1, 2, 2, 3]), maxexp=2)
        cof = small_poly(g, dshape, names, kind, nterms=rng.choice([1, 2, 3]), maxexp=2)
        prod = M.m_mul(G.model(cof), G.model(divisor))
        if kind == "float" and rng.random() < 0.3:
            # a cofactor of tiny magnitude (a power of two: everything stays exact): quotient
            # terms far below machine epsilon are terms, not rounding noise
            case["scale_pow"] = rng.choice([-60, -80, -40])  # (the documented absolute cutoff is 1e-30)
            factor = 2.0 ** case["scale_pow"]
            cof["coefs"] = [G.nested_map(lambda v: v * factor, c) for c in cof["coefs"]]
        prod = M.m_mul(G.model(cof), G.model(divisor))
        dividend = G.spec_from_model(prod, kind=kind, names=names)
        case["cofactor"] = cof
    elif cls == "multitop":
        if len(names) < 2:
            names = ["q0", "q1"]
        divisor = small_poly(g, vshape, names, kind, nterms=2, maxexp=2)
        # force two incomparable top terms: a*n1**2 + b*n0
        c1 = g.array_data(vshape, kind, zero_prob=0.1)
        c2 = g.array_data(vshape, kind, zero_prob=0.1)
        row1 = [0] * len(names)
        row2 = [0] * len(names)
        row1[1] = rng.choice([1, 2])
        row2[0] = rng.choice([1, 2, 3])
        divisor["exps"] = [row1, row2]
        divisor["coefs"] = [G.nested_map(G.jnum, c1), G.nested_map(G.jnum, c2)]
        dividend = small_poly(g, dshape, names, kind, nterms=rng.choice([2, 3, 4]), maxexp=3)
    elif cls == "arraymix":
        shape = rng.choice([(3,), (2, 2), (4,)])
        dshape = vshape = shape
        divisor = small_poly(g, shape, names, kind, nterms=3, maxexp=2)
        # zero out whole elements / individual leading coefficients
        for coef in divisor["coefs"]:
            flat = numpy.array(G.unj_nested(coef)).ravel()
            for i in range(flat.size):
                if rng.random() < 0.35:
                    flat[i] = 0
            coef[:] = G.nested_map(G.jnum, flat.reshape(shape).tolist())
        dividend = small_poly(g, shape, names, kind, nterms=rng.choice([2, 3, 4]), maxexp=3)
    else:
        dividend = small_poly(g, dshape, names, kind, nterms=rng.choice([1, 2, 3, 4]), maxexp=3)
        divisor = small_poly(g, vshape, names, kind, nterms=rng.choice([1, 2, 2, 3]), maxexp=2)
    spelling = rng.choice(["poly_divmod", "poly_divmod", "divmod", "ops", "poly_divide+remainder"])
    if rng.random() < 0.15 and cls in ("general", "univariate", "multitop"):
        # number / list / array on the left (reflected operators)
        left = g.const_operand(shape=rng.choice([(), dshape]), kind=kind)
        if left["k"] != "np":
            dividend = left
            spelling = rng.choice(["divmod", "ops"])
    if kind == "int" and cls in ("general", "univariate", "multitop") and divisor["k"] == "poly" \
            and rng.random() < 0.2:
        # unsigned / narrow coefficient types in the divisor (and sometimes the dividend)
        dtype = rng.choice(["uint8", "uint16", "uint32", "uint64", "int8", "int16"])
        for spec in [divisor] + ([dividend] if dividend["k"] == "poly" and rng.random() < 0.5 else []):
            spec["dtype"] = dtype
            if dtype.startswith("u"):
                spec["coefs"] = [G.nested_map(lambda v: abs(v) if not isinstance(v, dict) else v, c)
                                 for c in spec["coefs"]]
        case["dtype"] = dtype
    if rng.random() < 0.12:
        case["strict_fp"] = True
    case.update({"dividend": dividend, "divisor": divisor, "spelling": spelling})
    return case


def divisor_features(dmodel, names):
    """Does some divisor element have several maximal (incomparable) terms?"""
    multi = False
    for elem in dmodel.ravel().tolist():
        rows = list(elem.rows(sorted(elem.names(), key=M.numsuffix) or ["q0"]))
        tops = [r for r in rows if not any(
            o != r and all(a <= b for a, b in zip(r, o)) for o in rows)]
        if len(tops) > 1:
            multi = True
    return multi


def execute(spelling, a, b, strict_fp=False):
    import numpoly

    if strict_fp:
        # floating-point faults and warnings promoted to errors (a common test configuration):
        # a division that is well defined does not trip over entries that take no part in it
        import warnings
        with numpy.errstate(all="raise"), warnings.catch_warnings():
            warnings.simplefilter("error")
            return execute(spelling, a, b)
    if spelling == "poly_divmod":
        return numpoly.poly_divmod(a, b)
    if spelling == "divmod":
        return divmod(a, b)
    if spelling == "ops":
        return a / b, a % b
    return numpoly.poly_divide(a, b), numpoly.poly_remainder(a, b)


def scale_of(*arrs, floor=1.0):
    out = floor
    for arr in arrs:
        for elem in M.wrap(arr).ravel().tolist():
            out = max(out, elem.max_abs())
    return out


def run_case(case, ctx, monitor):
    import numpoly
    from vf.monitors.step import NonTermination

    a_spec, b_spec = case["dividend"], case["divisor"]
    a, b = G.build(a_spec), G.build(b_spec)
    am, bm = G.model(a_spec), G.model(b_spec)
    try:
        shape = numpy.broadcast_shapes(am.shape, bm.shape)
    except ValueError:
        ctx.count("skipped_unbroadcastable")
        return
    if not isinstance(a, numpoly.ndpoly) and not isinstance(b, numpoly.ndpoly):
        ctx.count("skipped_no_polynomial")
        return
    names = sorted(M.all_names(am) | M.all_names(bm), key=M.numsuffix)
    multitop = divisor_features(bm, names)
    bfeat = G.spec_features(b_spec)
    afeat = G.spec_features(a_spec)
    facts = {"op": "poly_divmod", "spelling": case["spelling"], "class": case["class"],
             "dtype": case.get("dtype", ""),
             "divisor_incomparable_tops": multitop, "n_names": len(names),
             "left_kind": afeat["kind"]}
    nontrivial = any(not e.is_const() and e.nterms() >= 2 for e in bm.ravel().tolist())
    sig = (len(names), case["class"], multitop, tuple(afeat["shape"]), tuple(bfeat["shape"]),
           afeat["coef"], case["spelling"], afeat["kind"])
    ctx.evaluated(sig, nontrivial)
    ctx.count("class_" + case["class"])
    monitor.reset()
    before = monitor.total_backedges
    try:
        q, r = execute(case["spelling"], a, b, bool(case.get("strict_fp")))
    except NonTermination as err:
        facts["failure"] = "nontermination:" + err.kind
        ctx.count("loop_backedges", monitor.total_backedges - before)
        ctx.violation(facts, f"poly_divmod does not terminate: {err}\n  dividend={M.describe(am, 300)}"
                             f"\n  divisor={M.describe(bm, 300)}", case)
        return
    except Exception as err:  # pylint: disable=broad-except
        ctx.count("loop_backedges", monitor.total_backedges - before)
        O.report_exception(ctx, facts, err, case, what="division")
        return
    ctx.count("loop_backedges", monitor.total_backedges - before)
    ctx.count("divisions_returned")
    try:
        qm, rm = O.result_model(q), O.result_model(r)
    except Exception as err:  # pylint: disable=broad-except
        facts["failure"] = "malformed"
        ctx.violation(facts, f"quotient/remainder unreadable: {err}", case)
        return
    if tuple(qm.shape) != tuple(shape) or tuple(rm.shape) != tuple(shape):
        facts["failure"] = "shape"
        ctx.violation(facts, f"shapes q={qm.shape} r={rm.shape}, expected {shape}", case)
        return
    ab = numpy.broadcast_to(am, shape)
    bb = numpy.broadcast_to(bm, shape)
    recomposed = M.m_add(M.m_mul(qm, bb), rm)
    floor = 2.0 ** case.get("scale_pow", 0)
    scale = scale_of(ab, M.m_mul(qm, bb), rm, floor=floor)
    if case.get("exact_fp"):
        scale = floor  # every operation of this case is exact in binary floating point
        ctx.count("exact_fp_cases")
    residual = M.m_sub(ab, recomposed)
    if any(e for e in residual.ravel().tolist()) and max(
            e.max_abs() for e in residual.ravel().tolist()) > 1e-9 * scale:
        facts["failure"] = "identity"
        ctx.violation(facts, f"dividend != q*divisor + r: residual {M.describe(residual, 300)}\n"
                             f"  dividend={M.describe(am, 200)}\n  divisor={M.describe(bm, 200)}\n"
                             f"  q={M.describe(qm, 200)}\n  r={M.describe(rm, 200)}", case)
        return
    tol = 1e-9 * scale
    cof = G.model(case["cofactor"]) if "cofactor" in case else None
    for idx in numpy.ndindex(*shape):
        d, bq, rq, qq = ab[idx], bb[idx], rm[idx], qm[idx]
        if bq.is_zero():
            continue
        if bq.is_const():
            want = d.div_scalar(bq.const_value())
            if (qq - want).max_abs() > tol or rq.max_abs() > tol:
                facts["failure"] = "constant_divisor"
                ctx.violation(facts, f"element {idx}: divisor constant {bq}: q={qq} (expected {want}) "
                                     f"r={rq} (expected 0)", case)
                return
        if cof is not None:
            want = numpy.broadcast_to(cof, shape)[idx]
            if rq.max_abs() > tol or (qq - want).max_abs() > tol:
                facts["failure"] = "exact_multiple"
                ctx.violation(facts, f"element {idx}: dividend is cofactor*divisor but r={rq}, q={qq} "
                                     f"(cofactor {want}); divisor={bq}", case)
                return
        if len(names) == 1 and not rq.is_zero():
            rq_sig = M.MP({m: v for m, v in rq.t.items() if M.c_abs_float(v) > tol})
            if not rq_sig.is_zero() and rq_sig.degree() >= bq.degree() and not bq.is_const():
                facts["failure"] = "degree"
                ctx.violation(facts, f"element {idx}: deg r = {rq_sig.degree()} >= deg divisor = "
                                     f"{bq.degree()}: r={rq} divisor={bq}", case)
                return
    # operators must return exactly what poly_* return
    if case["spelling"] != "poly_divmod":
        monitor.reset()
        try:
            q2, r2 = numpoly.poly_divmod(a, b)
        except BaseException as err:  # pylint: disable=broad-except
            facts["failure"] = "spelling:" + type(err).__name__
            ctx.violation(facts, f"{case['spelling']} returned but poly_divmod raised {err}", case)
            return
        ctx.evaluated(("spelling",) + sig, nontrivial)
        for label, x, y in (("quotient", q, q2), ("remainder", r, r2)):
            prob = O.mismatch(x, O.result_model(y))
            if prob is not None:
                facts["failure"] = "spelling"
                ctx.violation(facts, f"{case['spelling']} {label} differs from poly_divmod: {prob[1]}",
                              case)
                return


def run_sequences(ctx, seed):
    """Divisions in sequence: the same operand objects again after an in-place update, and a
    division after one that raised half-way. Every division stands on its own."""
    import numpoly
    import warnings

    rng = numpy.random.default_rng(seed)
    q0, q1 = numpoly.variable(2)
    for n in range(40):
        case = {"class": "sequence", "n": n}
        if not ctx.begin(case):
            continue
        facts = {"op": "poly_divmod", "class": "sequence", "failure": "value"}
        c = rng.integers(1, 5, size=3)
        p = numpoly.polynomial([q0 ** 2 + c[0], c[1] * q0 * q1 + 4.0, q1 ** 3 - c[2] * q0])
        # (1) same objects, divisor updated in place in between
        divisor = numpy.array([2.0, 4.0, 8.0])
        first = numpoly.poly_divmod(p, divisor)
        divisor *= 2.0
        second = numpoly.poly_divmod(p, divisor)
        want = numpoly.poly_divmod(numpoly.polynomial(p), numpy.array([4.0, 8.0, 16.0]))
        ctx.evaluated(("sequence", "update", n % 4), True)
        ctx.count("sequence_divisions")
        if O.mismatch(second[0], O.result_model(want[0])) or O.mismatch(second[1], O.result_model(want[1])) \
                or O.mismatch(first[0] - 2 * second[0], M.wrap(M.abstract(first[0] * 0))):
            ctx.violation(dict(facts, step="after_update"),
                          f"p / c, c *= 2, p / c: second quotient {second[0]} (expected {want[0]})", case)
            ctx.end()
            continue
        # ... the polynomial dividend updated in place through its raw view
        raw = p.values
        for key in raw.dtype.names:
            raw[key] *= 3
        third = numpoly.poly_divmod(p, divisor)
        if O.mismatch(third[0], O.result_model(3 * second[0])):
            ctx.violation(dict(facts, step="after_update"),
                          f"dividend tripled in place: quotient {third[0]} (expected {3 * second[0]})", case)
            ctx.end()
            continue
        # (2) a scalar division that raises inside the reduction, then an ordinary array division
        try:
            with numpy.errstate(all="raise"), warnings.catch_warnings():
                warnings.simplefilter("error")
                numpoly.poly_divmod(1e200 * q0 ** 2 + 1, 1e-200 * q0)
        except Exception:  # pylint: disable=broad-except
            ctx.count("sequence_raised")
        try:
            numpoly.poly_divmod(q0 + 1, q0, bogus_keyword=True)
        except Exception:  # pylint: disable=broad-except
            ctx.count("sequence_raised")
        dividend = q0 ** 3 + q1
        divs = numpoly.polynomial([q1 ** 2 - 2 * q0, 2, q0])
        q, r = numpoly.poly_divmod(dividend, divs)
        ctx.evaluated(("sequence", "after_error", n % 4), True)
        back = q * divs + r
        if tuple(q.shape) != (3,) or tuple(r.shape) != (3,) or \
                O.mismatch(back, M.abstract(numpoly.polynomial([dividend] * 3))):
            ctx.violation(dict(facts, step="after_error"),
                          f"division after a division that raised: q={q} r={r}", case)
        ctx.end()


def run(spec, ctx):
    from vf.monitors.step import StepMonitor

    monitor = StepMonitor(budget=10000)
    monitor.attach()
    try:
        if "replay_case" in spec:
            ctx.run_case(spec["replay_case"], lambda c: run_case(c, ctx, monitor))
            return
        g = G.Gen(spec["seed"] * 1000003 + spec["part"] * 7919 + 5)
        if spec["part"] == 0:
            run_sequences(ctx, spec["seed"])
        for i in range(spec["n"]):
            case = gen_case(g)
            if i < 2 and spec["part"] == 0:
                ctx.sample(case)
            ctx.run_case(case, lambda c: run_case(c, ctx, monitor))
        ctx.count("max_backedges_one_division", 0)
        ctx.counters["max_backedges_one_division"] = max(
            ctx.counters.get("max_backedges_one_division", 0), monitor.max_backedges)
    finally:
        monitor.detach()
