"""C12: coefficient values survive every dtype; no uninitialised memory is returned.

Three monitors: (1) cast oracle against numpy's own astype/result_type over all
13 numeric dtypes and all ordered pairs; (2) dual-poison differential on the
allocator hook over the whole operation catalogue; (3) ASan+UBSan build of the
native layer under the dtype workload.
"""
from __future__ import annotations

import itertools
import warnings

import numpy

from vf import catalogue as C
from vf import catrun
from vf import gen as G
from vf import model as M
from vf import oracle as O
from vf.harness import exc_fact, tb_short

DTYPES = ["bool", "int8", "int16", "int32", "int64", "uint8", "uint16", "uint32", "uint64",
          "float16", "float32", "float64", "complex64", "complex128"]
DTYPES = [d for d in DTYPES if d != "float16"] + ["float16"]
NATIVE = {"bool", "uint32", "int64", "float64", "complex128"}
META = {
    "level": "exploration",
    "rule": (
        "cast oracle: all ordered pairs of the 14 numeric dtypes (bool, int8-64, uint8-64, "
        "float16/32/64, complex64/128) x operations {from data, dtype= request via polynomial / "
        "aspolynomial / polynomial_from_attributes / variable / symbols, mixed-dtype coefficient "
        "lists and dicts, astype, + - * **, getitem, reshape, transpose, concatenate, stack, where} "
        "compared with numpy's astype / result_type on the coefficient arrays; dual-poison "
        "differential (allocator hook on ndpoly.__new__, poison 0xA5 vs 0x5A, output bytes "
        "diffed) over the whole operation catalogue plus cancelling / filtered / empty results, "
        "and riding on the API monitor over the workloads of C01/C02/C05/C06/C19 (every "
        "polynomial returned across the API boundary is fingerprinted under both poisons); "
        "ASan+UBSan build of the three native modules under the dtype workload (report blocks "
        "counted). signature = (operation, source dtype, target dtype) or (operation, shapes) for "
        "the poison part; non-trivial when the dtypes differ or the dtype has no native writer"
    ),
    "assumptions": [
        "promotion with Python scalars (weak-scalar rules) is not asserted",
        "the native layer is checked as of the generated .c files (Cython unavailable)",
    ],
    "min_evaluations": {"quick": 8000, "thorough": 100000},
    "required_counters": ["poison_runs", "poison_allocations", "cast_checks", "asan_cases"],
}
SHARD_TIMEOUT = {"quick": 900, "thorough": 7200}


def shards(tier, seed):
    out = []
    ncast = 4 if tier == "quick" else 12
    for i in range(ncast):
        out.append({"kind": "cast", "part": i, "parts": ncast, "rounds": 1 if tier == "quick" else 6})
    npoison = 6 if tier == "quick" else 14
    for i in range(npoison):
        out.append({"kind": "poison", "part": i, "per_op": 12 if tier == "quick" else 150})
    for i in range(2 if tier == "quick" else 6):
        out.append({"kind": "poison_ride", "part": i, "n": 400 if tier == "quick" else 4000})
    nasan = 3 if tier == "quick" else 8
    for i in range(nasan):
        out.append({"kind": "cast", "flavour": "asan", "part": i, "parts": nasan, "asan": True,
                    "rounds": 1 if tier == "quick" else 2})
    # the operation catalogue (and the poison differential) on the sanitizer build too
    for i in range(1 if tier == "quick" else 4):
        out.append({"kind": "poison", "flavour": "asan", "asan": True, "part": 50 + i,
                    "per_op": 4 if tier == "quick" else 40})
    return out


def facts_of_case(case):
    return {"op": case.get("op", "?"), "source_dtype": case.get("S", ""),
            "target_dtype": case.get("T", "")}


# ---------------------------------------------------------------------------
# cast oracle
# ---------------------------------------------------------------------------
CAST_OPS = ["add_broadcast", "multiply_out", "multiply3", "power3", "aspolynomial_names",
            "from_data", "dtype_request", "aspolynomial", "aspolynomial_poly", "from_attributes",
            "from_attributes_mixed", "dict_mixed", "variable", "symbols", "astype", "add", "subtract",
            "multiply", "power", "getitem", "reshape", "transpose", "concatenate", "stack", "where",
            "scalar_from_data", "power_exact", "update_through_view"]


def data_for(rng, dtype, shape):
    raw = rng.integers(0, 4, size=shape)
    arr = raw.astype(dtype)
    if numpy.dtype(dtype).kind == "c":
        arr = arr + 1j * rng.integers(0, 3, size=shape).astype(dtype)
        arr = arr.astype(dtype)
    if numpy.dtype(dtype).kind == "f":
        arr = (arr + rng.integers(0, 2, size=shape) * 0.5).astype(dtype)
    return arr


def cast(arr, dtype):
    with warnings.catch_warnings():
        warnings.simplefilter("ignore")
        return numpy.asarray(arr).astype(dtype)


def coef_lookup(poly):
    return {tuple(int(e) for e in row): numpy.asarray(c)
            for row, c in zip(poly.exponents, poly.coefficients)}


def same(a, b):
    a, b = numpy.asarray(a), numpy.asarray(b)
    if a.shape != b.shape:
        return False
    if a.dtype.kind in "iub" and b.dtype.kind in "iub":
        # exact also beyond 2**53 (uint64 / int64 do not fit float64)
        return bool(numpy.array_equal(a.astype(object), b.astype(object)))
    return bool(numpy.array_equal(a.astype(numpy.complex128), b.astype(numpy.complex128)))


def check_terms(ctx, facts, case, poly, want_terms, want_dtype, what):
    """want_terms: {exponent row (by poly.names order): expected coefficient array}."""
    import numpoly

    if not isinstance(poly, numpoly.ndpoly):
        ctx.violation(dict(facts, failure="type"), f"{what}: result is {type(poly).__name__}", case)
        return False
    if want_dtype is not None and poly.dtype != numpy.dtype(want_dtype):
        ctx.violation(dict(facts, failure="dtype"),
                      f"{what}: dtype {poly.dtype} != expected {numpy.dtype(want_dtype)}", case)
        return False
    got = coef_lookup(poly)
    for row, c in got.items():
        if c.dtype != poly.dtype:
            ctx.violation(dict(facts, failure="dtype"),
                          f"{what}: coefficient dtype {c.dtype} != polynomial dtype {poly.dtype}", case)
            return False
    width = len(poly.names)
    for row, want in want_terms.items():
        row = tuple(row) + (0,) * (width - len(row))
        have = got.get(row)
        if have is None:
            have = numpy.zeros(numpy.shape(want), dtype=poly.dtype)
        if not same(have, want):
            ctx.violation(dict(facts, failure="value"),
                          f"{what}: coefficient of exponent {row}: got {numpy.asarray(have).tolist()!r:.200}"
                          f" expected {numpy.asarray(want).tolist()!r:.200} (numpy's cast)", case)
            return False
    extra = [r for r in got if r[:max(len(k) for k in want_terms)] not in
             {tuple(k) for k in want_terms} and numpy.any(got[r])]
    for row in got:
        key = tuple(row)
        known = any(tuple(k) + (0,) * (width - len(k)) == key for k in want_terms)
        if not known and numpy.any(got[row]):
            ctx.violation(dict(facts, failure="value"),
                          f"{what}: unexpected non-zero term {row}: {got[row].tolist()!r:.200}", case)
            return False
    return True


def run_cast_case(case, ctx):
    import numpoly

    S, T, op = case["S"], case["T"], case["op"]
    rng = numpy.random.default_rng(case["vseed"])
    shape = tuple(case["shape"])
    a = data_for(rng, S, shape)
    b = data_for(rng, T, shape)
    facts = {"op": op, "source_dtype": S, "target_dtype": T,
             "native_source": S in NATIVE, "native_target": T in NATIVE}
    nontrivial = S != T or S not in NATIVE
    ctx.evaluated((op, S, T), nontrivial)
    ctx.count("cast_checks")
    if case.get("asan"):
        ctx.count("asan_cases")
    res_dtype = numpy.result_type(numpy.dtype(S), numpy.dtype(T))
    q0 = numpoly.variable()

    def two_term(x, y=None, dtype=None):
        y = x if y is None else y
        return numpoly.polynomial_from_attributes([[0], [1]], [x, y], names=("q0",), dtype=dtype)

    try:
        with warnings.catch_warnings():
            warnings.simplefilter("ignore")
            if op == "from_data":
                check_terms(ctx, facts, case, numpoly.polynomial(a), {(0,): a}, S, "polynomial(data)")
            elif op == "scalar_from_data":
                val = a.ravel()[0] if a.size else numpy.dtype(S).type(1)
                check_terms(ctx, facts, case, numpoly.polynomial(val), {(0,): val}, S,
                            "polynomial(numpy scalar)")
            elif op == "dtype_request":
                check_terms(ctx, facts, case, numpoly.polynomial(a, dtype=T), {(0,): cast(a, T)}, T,
                            "polynomial(data, dtype=T)")
                complex_to_real = numpy.dtype(S).kind == "c" and numpy.dtype(T).kind != "c"
                if a.ndim and not complex_to_real:
                    # the same request with the data spelled as (nested) lists / tuples (numpy itself
                    # refuses to build a real array from a list of Python complex numbers) ...
                    listed = numpy.array(a.tolist())
                    check_terms(ctx, facts, case, numpoly.polynomial(a.tolist(), dtype=T),
                                {(0,): cast(listed, T)}, T, "polynomial(nested list, dtype=T)")
                    check_terms(ctx, facts, case, numpoly.aspolynomial(tuple(a.tolist()), dtype=T),
                                {(0,): cast(listed, T)}, T, "aspolynomial(tuple of lists, dtype=T)")
                    # ... and as a list of polynomial arrays
                    src = two_term(a)
                    stacked = numpy.stack([a, a])
                    check_terms(ctx, facts, case, numpoly.polynomial([src, src], dtype=T),
                                {(0,): cast(stacked, T), (1,): cast(stacked, T)}, T,
                                "polynomial([poly, poly], dtype=T)")
                    ctx.count("dtype_request_lists")
            elif op == "aspolynomial":
                check_terms(ctx, facts, case, numpoly.aspolynomial(a, dtype=T), {(0,): cast(a, T)},
                            T, "aspolynomial(data, dtype=T)")
            elif op == "aspolynomial_poly":
                src = two_term(a, a[::-1] if a.ndim else a)
                check_terms(ctx, facts, case, numpoly.aspolynomial(src, dtype=T),
                            {(0,): cast(a, T), (1,): cast(a[::-1] if a.ndim else a, T)}, T,
                            "aspolynomial(poly, dtype=T)")
            elif op == "from_attributes":
                check_terms(ctx, facts, case, two_term(a, a + a if S != "bool" else a, dtype=T),
                            {(0,): cast(a, T), (1,): cast(a + a if S != "bool" else a, T)}, T,
                            "polynomial_from_attributes(dtype=T)")
            elif op == "from_attributes_mixed":
                res = two_term(a, b)
                check_terms(ctx, facts, case, res,
                            {(0,): cast(a, res.dtype), (1,): cast(b, res.dtype)}, None,
                            "polynomial_from_attributes(mixed dtypes)")
            elif op == "dict_mixed":
                x = a.ravel()[0] if a.size else numpy.dtype(S).type(1)
                y = b.ravel()[0] if b.size else numpy.dtype(T).type(2)
                res = numpoly.polynomial({(0,): x, (1,): y})
                check_terms(ctx, facts, case, res, {(0,): cast(x, res.dtype), (1,): cast(y, res.dtype)},
                            None, "polynomial({...} mixed dtypes)")
            elif op == "variable":
                res = numpoly.variable(2, dtype=T)
                check_terms(ctx, facts, case, res, {(1, 0): cast([1, 0], T), (0, 1): cast([0, 1], T)}, T,
                            "variable(2, dtype=T)")
            elif op == "symbols":
                res = numpoly.symbols("q0,q1", dtype=T)
                check_terms(ctx, facts, case, res, {(1, 0): cast([1, 0], T), (0, 1): cast([0, 1], T)}, T,
                            "symbols(names, dtype=T)")
            elif op == "astype":
                src = two_term(a)
                check_terms(ctx, facts, case, src.astype(T), {(0,): cast(a, T), (1,): cast(a, T)}, T,
                            "astype(T)")
                for extra in ({"copy": False}, {"copy": True}, {"order": "C"}, {"casting": "unsafe"}):
                    ctx.count("astype_keywords")
                    if not check_terms(ctx, facts, case, src.astype(T, **extra),
                                       {(0,): cast(a, T), (1,): cast(a, T)}, T, f"astype(T, **{extra})"):
                        break
                # ... and of arrays numpy derives from it through ndarray methods
                import copy as _copy
                for label, derive, on in (
                        ("copy()", lambda p: p.copy(), lambda x: x),
                        ("ravel()", lambda p: p.ravel(), lambda x: x.ravel()),
                        ("T", lambda p: p.T, lambda x: x.T),
                        ("deepcopy", _copy.deepcopy, lambda x: x),
                        ("flatten()", lambda p: p.flatten(), lambda x: x.flatten())):
                    ctx.count("astype_derived")
                    check_terms(ctx, facts, case, derive(src).astype(T),
                                {(0,): cast(on(a), T), (1,): cast(on(a), T)}, T,
                                f"{label}.astype(T)")
            elif op in ("add", "subtract"):
                if res_dtype == numpy.dtype(bool) or (op == "subtract" and res_dtype.kind == "u"):
                    return
                x, y = two_term(a), numpoly.polynomial_from_attributes(
                    [[1], [2]], [b, b], names=("q0",))
                func = numpy.add if op == "add" else numpy.subtract
                got = func(x, y)
                zero_b = numpy.zeros_like(b)
                zero_a = numpy.zeros_like(a)
                want = {(0,): func(a, zero_b), (1,): func(a, b), (2,): func(zero_a, b)}
                check_terms(ctx, facts, case, got, want, res_dtype, f"{op} of dtypes")
            elif op == "multiply":
                if res_dtype == numpy.dtype(bool):
                    return
                x, y = two_term(a), numpoly.polynomial_from_attributes(
                    [[0], [2]], [b, b], names=("q0",))
                got = x * y
                ab = numpy.multiply(a, b)
                want = {(0,): ab, (1,): ab, (2,): ab, (3,): ab}
                check_terms(ctx, facts, case, got, want, res_dtype, "multiply of dtypes")
            elif op == "add_broadcast":
                # operands that need broadcasting: the promoted dtype must be numpy's
                if res_dtype == numpy.dtype(bool) or res_dtype.kind == "u":
                    return
                row = a.reshape(-1)[:3] if a.size >= 3 else numpy.resize(a, 3)
                wide = numpy.resize(b, (2, 3))
                x = numpoly.polynomial_from_attributes([[0], [1]], [row, row], names=("q0",))
                y = numpoly.polynomial_from_attributes([[1], [2]], [wide, wide], names=("q0",))
                for label, func in (("add", numpy.add), ("subtract", numpy.subtract)):
                    got = func(x, y)
                    zero_w, zero_r = numpy.zeros_like(wide), numpy.zeros_like(row)
                    want = {(0,): func(row, zero_w), (1,): func(row, wide), (2,): func(zero_r, wide)}
                    if not check_terms(ctx, facts, case, got, want, res_dtype,
                                       f"{label} with broadcasting (3,) vs (2, 3)"):
                        break
            elif op == "multiply_out":
                # explicit output polynomial of dtype T, pre-filled with a sentinel
                # only casts numpy calls "same kind" (narrowing within a kind, or widening):
                # there casting before or after the product gives the same exact values
                if S == "bool" or T == "bool" or not numpy.can_cast(S, T, "same_kind"):
                    return
                a = (a + 1).astype(S)
                b = (b + 1).astype(S)
                x1 = numpoly.polynomial_from_attributes([[1, 0]], [a], names=("q0", "q1"),
                                                        retain_coefficients=True)
                x2 = numpoly.polynomial_from_attributes([[0, 1]], [b], names=("q0", "q1"),
                                                        retain_coefficients=True)
                fill = numpy.full(a.shape, 77).astype(T)
                out = numpoly.polynomial_from_attributes([[1, 1]], [fill], names=("q0", "q1"), dtype=T)
                res = numpoly.multiply(x1, x2, out=out)
                expected = numpy.empty(a.shape, dtype=T)
                numpy.multiply(a, b, out=expected, casting="unsafe")
                if res is not out:
                    ctx.violation(dict(facts, failure="type"), "multiply(out=) did not return out", case)
                    return
                check_terms(ctx, facts, case, res, {(1, 1): expected}, T, "multiply(x1, x2, out=out)")
            elif op == "multiply3":
                # three-term operands: several products land on the same exponent
                if res_dtype == numpy.dtype(bool):
                    return
                x = numpoly.polynomial_from_attributes([[0], [1], [2]], [a, a, a], names=("q0",))
                y = numpoly.polynomial_from_attributes([[0], [1], [2]], [b, b, b], names=("q0",))
                ab = numpy.multiply(a, b)
                want = {(0,): ab, (1,): ab + ab, (2,): ab + ab + ab, (3,): ab + ab, (4,): ab}
                check_terms(ctx, facts, case, x * y, want, res_dtype, "multiply (colliding products)")
            elif op == "power3":
                if S == "bool":
                    return
                small = (a % 2).astype(S) if numpy.dtype(S).kind in "iu" else a
                x = numpoly.polynomial_from_attributes([[0], [1], [2]], [small, small, small],
                                                       names=("q0",))
                sq = small * small
                want = {(0,): sq, (1,): sq + sq, (2,): sq + sq + sq, (3,): sq + sq, (4,): sq}
                check_terms(ctx, facts, case, x ** 2, want, S, "power of a three-term polynomial")
            elif op == "aspolynomial_names":
                src = two_term(a)
                for label, names in (("tuple", src.names), ("poly", src), ("list", list(src.names))):
                    got = numpoly.aspolynomial(src, names=names, dtype=T)
                    if not check_terms(ctx, facts, case, got, {(0,): cast(a, T), (1,): cast(a, T)},
                                       T, f"aspolynomial(poly, names={label}, dtype=T)"):
                        break
            elif op == "update_through_view":
                # read the coefficients once, then change the polynomial through another object
                # that shares its memory (a transposed / reshaped view as copyto destination):
                # every later cast and operation sees the new values
                if a.ndim < 1 or S == "bool":
                    return
                src = two_term(a)
                src.coefficients  # noqa: B018 (first read)
                src + 0
                newvals = (a[::-1] if a.ndim else a).copy()
                repl = two_term(newvals)
                view = src.T if a.ndim >= 2 else src.reshape(-1)
                rview = repl.T if a.ndim >= 2 else repl.reshape(-1)
                numpoly.copyto(view, rview)
                ctx.count("updates_through_views")
                if not check_terms(ctx, facts, case, src.astype(T),
                                   {(0,): cast(newvals, T), (1,): cast(newvals, T)}, T,
                                   "astype(T) after copyto(view of p, ...)"):
                    return
                check_terms(ctx, facts, case, numpoly.polynomial(src),
                            {(0,): newvals, (1,): newvals}, S, "polynomial(p) after copyto(view of p, ...)")
            elif op == "power_exact":
                # powers are products in the coefficient dtype itself: no detour through a wider
                # (or a floating) type. Values that a detour would round: integers beyond 2**53,
                # non-dyadic float16/32 values
                sd = numpy.dtype(S)
                if sd.kind == "b":
                    return
                if sd.kind in "iu":
                    top = int(numpy.iinfo(sd).max)
                    pool = [top, top - 2, top // 2 + 1, int(top ** 0.5) + 1, 3]
                else:
                    pool = [1.1, 0.7, 1.3, 2.9, 0.3]
                flat = numpy.array([pool[int(v) % len(pool)] for v in
                                    rng.integers(0, len(pool), size=max(a.size, 1))])
                c = flat[:a.size].astype(sd).reshape(a.shape) if a.size else a
                x = numpoly.polynomial_from_attributes([[1]], [c], names=("q0",), dtype=S)
                with numpy.errstate(all="ignore"):
                    for n, want in ((1, c), (2, c * c), (3, (c * c) * c)):
                        if not check_terms(ctx, facts, case, x ** n, {(n,): want}, S,
                                           f"(c*q0)**{n} with coefficients near the limits of {S}"):
                            break
            elif op == "power":
                if S == "bool":
                    return
                x = two_term(a)
                got = x ** 2
                want = {(0,): a * a, (1,): (a * a) + (a * a), (2,): a * a}
                check_terms(ctx, facts, case, got, want, S, "power")
            elif op == "getitem":
                x = two_term(a)
                idx = (slice(None, None, -1),) if a.ndim else ()
                check_terms(ctx, facts, case, x[idx], {(0,): a[idx], (1,): a[idx]}, S, "getitem")
            elif op == "reshape":
                x = two_term(a)
                check_terms(ctx, facts, case, numpoly.reshape(x, (-1,)),
                            {(0,): a.reshape(-1), (1,): a.reshape(-1)}, S, "reshape")
            elif op == "transpose":
                x = two_term(a)
                check_terms(ctx, facts, case, numpoly.transpose(x), {(0,): a.T, (1,): a.T}, S,
                            "transpose")
            elif op in ("concatenate", "stack"):
                if not a.ndim and op == "concatenate":
                    return
                x, y = two_term(a), numpoly.polynomial(b)
                func = getattr(numpy, op)
                got = func([x, y])
                want = {(0,): func([a, b]), (1,): func([a, numpy.zeros_like(b)])}
                check_terms(ctx, facts, case, got, want, res_dtype, op)
            elif op == "where":
                x, y = two_term(a), numpoly.polynomial(b)
                cond = (numpy.arange(a.size).reshape(a.shape) % 2).astype(bool)
                got = numpoly.where(cond, x, y)
                want = {(0,): numpy.where(cond, a, b), (1,): numpy.where(cond, a, numpy.zeros_like(b))}
                check_terms(ctx, facts, case, got, want, res_dtype, "where")
    except Exception as err:  # pylint: disable=broad-except
        O.report_exception(ctx, facts, err, case, what=f"{op} {S}->{T}")


def run_cast(spec, ctx):
    pairs = list(itertools.product(DTYPES, DTYPES))
    index = 0
    for rnd in range(spec["rounds"]):
        for S, T in pairs:
            for op in CAST_OPS:
                index += 1
                if index % spec["parts"] != spec["part"]:
                    continue
                shape = [(2, 3), (5,), (), (1, 2), (3, 1, 2)][(index // spec["parts"] + rnd) % 5]
                case = {"kind": "cast", "op": op, "S": S, "T": T, "shape": list(shape),
                        "vseed": spec["seed"] * 100003 + index * 17 + rnd}
                if spec.get("asan"):
                    case["asan"] = True
                if index % 997 == spec["part"]:
                    ctx.sample(case)
                ctx.run_case(case, lambda c: run_cast_case(c, ctx))


# ---------------------------------------------------------------------------
# dual-poison differential
# ---------------------------------------------------------------------------
def special_cases(g):
    """Results whose terms all cancel, are filtered away, or are empty."""
    out = []
    for _ in range(6):
        p = g.poly(shape=g.shape(), kind=g.rng.choice(["int", "float"]), allow_views=False)
        out.append({"op": "cancel_sub", "operands": [p], "kw": {}})
        out.append({"op": "times_zero", "operands": [p], "kw": {}})
        out.append({"op": "set_dimensions_down", "operands": [p],
                    "kw": {"dimensions": g.rng.choice([1, 1, 2])}})
        out.append({"op": "set_dimensions_up", "operands": [p],
                    "kw": {"dimensions": len(p["names"]) + g.rng.choice([1, 2])}})
        out.append({"op": "empty_slice", "operands": [g.poly(shape=(3,), allow_views=False)],
                    "kw": {}})
        out.append({"op": "derivative_const", "operands": [p], "kw": {}})
        out.append({"op": "decompose", "operands": [p], "kw": {}})
        out.append({"op": "call_partial", "operands": [p], "kw": {}})
        out.append({"op": "lead", "operands": [p], "kw": {}})
        out.append({"op": "zeros_ones", "operands": [], "kw": {"shape": list(g.shape())}})
        out.append({"op": "monomial", "operands": [], "kw": {"stop": g.rng.choice([2, 3, 4]),
                                                            "dims": g.rng.choice([1, 2])}})
        out.append({"op": "roundtrip_pickle", "operands": [p], "kw": {}})
        vec = g.poly(shape=(3,), kind=g.rng.choice(["int", "float"]), allow_views=False)
        for sub in ("pickle", "astype", "polynomial", "getitem", "add", "negative", "sum",
                    "concatenate", "copy", "reshape", "set_dimensions", "derivative", "call",
                    "equal", "tonumpy"):
            out.append({"op": "empty_input", "operands": [vec], "kw": {"sub": sub}})
    return out


def run_special(case, real):
    import pickle

    import numpoly

    op, kw = case["op"], case["kw"]
    if op == "cancel_sub":
        return real[0] - real[0]
    if op == "times_zero":
        return real[0] * 0, 0 * real[0], real[0] * numpy.zeros(real[0].shape, dtype=int)
    if op in ("set_dimensions_down", "set_dimensions_up"):
        return numpoly.set_dimensions(real[0], kw["dimensions"])
    if op == "empty_slice":
        return real[0][1:1], numpoly.diff(real[0], n=3), real[0][real[0] != real[0]]
    if op == "derivative_const":
        out = real[0]
        for _ in range(5):
            out = numpoly.derivative(out, out.names[0])
        return out
    if op == "decompose":
        return numpoly.decompose(real[0])
    if op == "call_partial":
        return real[0](**{real[0].names[0]: 0}), real[0](**{n: 0 for n in real[0].names})
    if op == "lead":
        return numpoly.lead_coefficient(real[0]), numpoly.lead_exponent(real[0]), \
            numpoly.sortable_proxy(real[0])
    if op == "zeros_ones":
        shape = tuple(kw["shape"])
        return numpoly.zeros(shape), numpoly.ones(shape), numpoly.full(shape, numpoly.variable())
    if op == "monomial":
        return numpoly.monomial(kw["stop"], dimensions=kw["dims"])
    if op == "roundtrip_pickle":
        return pickle.loads(pickle.dumps(real[0]))
    if op == "empty_input":
        empty = real[0][:0]
        sub = kw["sub"]
        if sub == "pickle":
            return pickle.loads(pickle.dumps(empty))
        if sub == "astype":
            return empty.astype(float)
        if sub == "polynomial":
            return numpoly.polynomial(empty), numpoly.aspolynomial(empty, dtype=float)
        if sub == "getitem":
            return empty[...], empty[::-1], empty[None]
        if sub == "add":
            return empty + 1, empty + numpoly.variable()
        if sub == "negative":
            return -empty
        if sub == "sum":
            return numpoly.sum(empty), numpoly.cumsum(empty)
        if sub == "concatenate":
            return numpoly.concatenate([empty, real[0]]), numpoly.concatenate([empty, empty])
        if sub == "copy":
            return empty.copy(), list(empty)
        if sub == "reshape":
            return numpoly.reshape(empty, (0, 2)), numpoly.transpose(empty)
        if sub == "set_dimensions":
            return numpoly.set_dimensions(empty, 3)
        if sub == "derivative":
            return numpoly.derivative(empty, empty.names[0])
        if sub == "call":
            return empty(1)
        if sub == "equal":
            return empty == empty, numpoly.isconstant(empty)
        if sub == "tonumpy":
            return numpoly.zeros((0,)).tonumpy(), numpoly.lead_coefficient(empty)
    raise ValueError(op)


def run_poison_case(case, ctx, poison):
    from vf.monitors.poison import differs, fingerprint

    specs = case["operands"]
    special = case["op"] not in C.OPS and case["op"] not in ("dag",)
    facts = {"op": case["op"], "sub": case["kw"].get("sub", ""),
             "shapes": "|".join(str(tuple(G.spec_features(s)["shape"])) for s in specs)}
    if not special and specs:
        facts = catrun.case_facts(C.OPS[case["op"]], case, case.get("spelling", "numpoly"))
    facts["failure"] = "poison"
    prints = []
    outcomes = []
    for byte in (0xA5, 0x5A):
        poison.byte = byte
        try:
            real = [G.build(s) for s in specs]
            if special:
                res = run_special(case, real)
            else:
                res = catrun.execute(C.OPS[case["op"]], case.get("spelling", "numpoly"), real,
                                     case["kw"])
            prints.append(fingerprint(res))
            outcomes.append("ok")
        except Exception as err:  # pylint: disable=broad-except
            prints.append(("exc", type(err).__name__))
            outcomes.append(type(err).__name__)
        finally:
            poison.byte = None
    ctx.count("poison_runs", 2)
    if case.get("asan"):
        ctx.count("asan_cases")
    sig = (case["op"], case.get("spelling", ""), facts["shapes"], tuple(sorted(case["kw"])))
    ctx.evaluated(sig, True)
    if outcomes[0] != "ok":
        ctx.count("poison_op_raised")
        return
    text = differs(prints[0], prints[1])
    if text:
        ctx.violation(facts, f"{case['op']}: result depends on uninitialised storage: {text}", case)


def run_poison(spec, ctx):
    from vf.monitors.poison import Poison

    poison = Poison()
    poison.install()
    try:
        if "replay_case" in spec:
            ctx.run_case(spec["replay_case"], lambda c: run_poison_case(c, ctx, poison))
            return
        g = G.Gen(spec["seed"] * 1000003 + spec["part"] * 7919 + 12)
        names = [n for n in C.OPS]
        for i in range(spec["per_op"]):
            for name in names:
                op = C.OPS[name]
                gen = C.ConstGen(g.rng.random()) if op.group == "mirror" else g
                if op.group == "mirror":
                    gen.rng = g.rng
                case = catrun.gen_case(gen, name)
                case["kind"] = "poison"
                if spec.get("asan"):
                    case["asan"] = True
                if i == 0 and spec["part"] == 0 and name in ("multiply", "diff", "concatenate"):
                    ctx.sample(case)
                ctx.run_case(case, lambda c: run_poison_case(c, ctx, poison))
            for case in special_cases(g):
                case["kind"] = "poison"
                ctx.run_case(case, lambda c: run_poison_case(c, ctx, poison))
        ctx.count("poison_allocations", poison.allocations)
    finally:
        poison.uninstall()


def run_poison_ride(spec, ctx):
    """Dual-poison differential on every polynomial crossing the API boundary
    while the workloads of C01/C02/C05/C06/C19 run (M-POISON riding on M-API)."""
    from vf.monitors.api import ApiMonitor
    from vf.monitors.poison import Poison, differs, fingerprint
    from vf.monitors.step import StepMonitor
    from vf.monitors import wellformed as WF
    from vf.props.c03 import Sink, borrowed_case, run_borrowed

    poison = Poison()
    collected = []

    def on_exit(name, token, boundary, value, exc):
        if exc is None and boundary and any(True for _ in WF.polys_in(value)):
            collected.append((name, fingerprint(value)))

    api = ApiMonitor(on_enter=None, on_exit=on_exit, boundary_only=True)
    step = StepMonitor(budget=3000)
    sink = Sink()
    g = G.Gen(spec["seed"] * 1000003 + spec["part"] * 7919 + 121)
    cg = C.ConstGen(0)
    cg.rng = g.rng
    sources = ["c01", "c02", "c05", "c06", "c19"]
    poison.install()
    step.attach()
    api.attach()
    try:
        cases = [spec["replay_case"]] if "replay_case" in spec else None
        for i in range(len(cases) if cases else spec["n"]):
            wrapped = cases[i] if cases else borrowed_case(g, cg, sources[i % len(sources)])
            wrapped["kind"] = "poison_ride"
            if not ctx.begin(wrapped):
                continue
            runs = []
            for byte in (0xA5, 0x5A):
                collected.clear()
                poison.byte = byte
                try:
                    run_borrowed(wrapped, sink, step)
                except Exception:  # pylint: disable=broad-except
                    pass
                finally:
                    poison.byte = None
                runs.append(list(collected))
            ctx.count("poison_runs", 2)
            ctx.count("poison_ride_returns", len(runs[0]))
            ctx.evaluated(("ride", wrapped["source"], len(runs[0]) > 0), True)
            if [n for n, _ in runs[0]] != [n for n, _ in runs[1]]:
                ctx.violation({"op": wrapped["source"], "failure": "poison", "ride": True},
                              "the sequence of API returns differs between the two poison bytes: "
                              f"{[n for n, _ in runs[0]][:8]} vs {[n for n, _ in runs[1]][:8]}", wrapped)
            else:
                for (name, f0), (_, f1) in zip(*runs):
                    text = differs(f0, f1)
                    if text:
                        ctx.violation({"op": name.replace("numpoly.", ""), "failure": "poison",
                                       "ride": True, "source": wrapped["source"]},
                                      f"{name} returned storage that depends on the poison: {text}",
                                      wrapped)
                        break
            if i < 1 and spec["part"] == 0:
                ctx.sample({"kind": "poison_ride", "source": wrapped["source"],
                            "api_returns_compared": len(runs[0])})
            ctx.end()
        ctx.count("poison_allocations", poison.allocations)
    finally:
        api.detach()
        step.detach()
        poison.uninstall()


def run(spec, ctx):
    warnings.simplefilter("ignore")
    if "replay_case" in spec:
        case = spec["replay_case"]
        if case.get("kind") == "cast":
            ctx.run_case(case, lambda c: run_cast_case(c, ctx))
        elif case.get("kind") == "poison":
            run_poison(spec, ctx)
        elif case.get("kind") == "poison_ride":
            run_poison_ride(spec, ctx)
        else:
            run_cast(dict(spec, **{k: case[k] for k in ("part", "parts", "rounds") if k in case}), ctx)
        return
    if spec["kind"] == "cast":
        run_cast(spec, ctx)
    elif spec["kind"] == "poison_ride":
        run_poison_ride(spec, ctx)
    else:
        run_poison(spec, ctx)
