"""C20: monomials are never confused, whatever the exponent size."""
from __future__ import annotations

import io
import pickle
import random
import warnings

import numpy

from vf import model as M
from vf import oracle as O
from vf.harness import exc_fact, tb_short

LIMIT = 55000
META = {
    "level": "exploration",
    "rule": (
        "(a) every exponent 0..54999 in each position of 1-3 indeterminates: construct, read "
        "exponents back, decode the raw structured view's field names independently, rebuild from "
        "the raw view and from todict -- must be the same monomials, pairwise distinct; boundary "
        "bands (surrogate code points, beyond U+10FFFF) must raise or be exact, never alias; (b) "
        "products (c*q0**a)*(d*q0**b) and (q0**a+1)*(q0**b+3) for pairs with a+b <= 600 (quick: "
        "bands around key codes 127/128 and 255/256 + sample; thorough: all pairs), incl. a second "
        "indeterminate; (c) random exponent tuples up to 10**5 in 1-3 indeterminates through power, "
        "derivative, evaluation/substitution, alignment, pickling and savetxt/loadtxt (incl. "
        "exponents whose key character is Unicode white space). Outcome classifier {correct, "
        "raised, WRONG}: a different monomial stored or loaded is a violation everywhere, raising "
        "is a violation only below 55000 (text files excepted). signature = (operation, exponent "
        "band); non-trivial when an exponent is >= 69"
    ),
    "exhaustive": {
        "quick": "single exponents 0..54999 in each of 1-3 positions (encode/decode/rebuild)",
        "thorough": "single exponents 0..54999 in each of 1-3 positions; all multiplication pairs a+b <= 600",
    },
    "assumptions": ["raising an error is accepted for text files and above 54999"],
    "min_evaluations": {"quick": 150000, "thorough": 500000},
    "required_counters": ["exponents_roundtripped", "products", "random_ops", "text_exponents"],
}
SHARD_TIMEOUT = {"quick": 900, "thorough": 7200}


def shards(tier, seed):
    out = []
    nenc = 6 if tier == "quick" else 12
    for i in range(nenc):
        out.append({"kind": "encode", "part": i, "parts": nenc})
    nprod = 4 if tier == "quick" else 12
    for i in range(nprod):
        out.append({"kind": "products", "part": i, "parts": nprod})
    # multiplication (stack key buffer of the native layer) on the ASan+UBSan build
    for i in range(1 if tier == "quick" else 3):
        out.append({"kind": "products", "flavour": "asan", "part": i, "parts": 8 if tier == "quick" else 3,
                    "asan": True})
    nrand = 3 if tier == "quick" else 8
    for i in range(nrand):
        out.append({"kind": "random", "part": i, "n": 500 if tier == "quick" else 5000})
    out.append({"kind": "text", "part": 0})
    return out


def facts_of_case(case):
    return {"op": case.get("op", "?")}


def band(e):
    for top in (69, 128, 256, 1000, 10000, 55000, 10 ** 5, 10 ** 6):
        if e < top:
            return f"<{top}"
    return ">=1e6"


def mono(names, row, coef=1):
    return M.MP.from_rows(names, [row], [coef])


# ---------------------------------------------------------------------------
def run_encode(spec, ctx):
    import numpoly

    chunk = 250
    starts = list(range(0, LIMIT, chunk))
    for ci, start in enumerate(starts):
        if ci % spec["parts"] != spec["part"]:
            continue
        for ndim, pos in ((1, 0), (2, 0), (2, 1), (3, 1), (3, 2), (3, 0)):
            names = tuple(f"q{i}" for i in range(ndim))
            exps = list(range(start, min(start + chunk, LIMIT)))
            rows = []
            for e in exps:
                row = [0] * ndim
                row[pos] = e
                if ndim > 1:
                    row[(pos + 1) % ndim] = (e * 7) % 5
                rows.append(row)
            coefs = [numpy.array([i + 1, -(i + 1)]) for i in range(len(rows))]
            case = {"op": "encode", "start": start, "stop": exps[-1], "ndim": ndim, "pos": pos}
            if not ctx.begin(case):
                continue
            facts = {"op": "encode", "band": band(start), "ndim": ndim}
            try:
                with warnings.catch_warnings():
                    warnings.simplefilter("ignore")
                    poly = numpoly.polynomial_from_attributes(rows, coefs, names=names)
                    got_rows = [tuple(int(v) for v in r) for r in poly.exponents]
                    raw = poly.values
                    fields = raw.dtype.names
                    decoded = [tuple(ord(ch) - 59 for ch in f) for f in fields]
                    rebuilt = numpoly.polynomial(raw, names=names)
                    via_dict = numpoly.polynomial(poly.todict(), names=names)
                    # the same exponent table handed over as an integer array of the narrowest
                    # type that holds it (uint8 / uint16 / int16 / int32 / uint32 ...)
                    top = max(max(r) for r in rows)
                    narrow = [d for d in ("uint8", "int16", "uint16", "int32", "uint32", "int64")
                              if top <= numpy.iinfo(d).max]
                    from_array = []
                    for dtype in narrow[:2] + narrow[-1:]:
                        arr = numpy.array(rows, dtype=dtype)
                        alt = numpoly.polynomial_from_attributes(arr, coefs, names=names)
                        from_array.append((dtype, sorted(tuple(int(v) for v in r)
                                                         for r in alt.exponents)))
                        ctx.count("exponent_array_dtypes")
            except Exception as err:  # pylint: disable=broad-except
                ctx.violation(dict(facts, failure=exc_fact(err)),
                              f"exponents {start}..{exps[-1]} (position {pos} of {ndim}) raised "
                              f"{type(err).__name__}: {err}\n{tb_short(err)}", case)
                ctx.end()
                continue
            ctx.evaluations += len(rows)
            ctx.count("exponents_roundtripped", len(rows))
            if start >= 69:
                ctx.distinct_extra += len(rows)
            want = {tuple(r): (int(c[0]), int(c[1])) for r, c in zip(rows, coefs)}
            have = {r: (int(c[0]), int(c[1])) for r, c in zip(got_rows, poly.coefficients)}
            bad = None
            for dtype, alt_rows in from_array:
                if alt_rows != sorted(map(tuple, rows)):
                    bad = (f"exponents given as a {dtype} array are stored as "
                           f"{[r for r in alt_rows if r not in set(map(tuple, rows))][:4]}")
            if bad is not None:
                pass
            elif have != want:
                bad = f"exponents/coefficients read back differ: {sorted(set(have) ^ set(want))[:4]}"
            elif len(set(fields)) != len(rows) or sorted(decoded) != sorted(map(tuple, rows)):
                bad = f"raw field names decode to {sorted(set(decoded) ^ set(map(tuple, rows)))[:4]}"
            else:
                for label, other in (("raw view", rebuilt), ("todict", via_dict)):
                    got2 = {tuple(int(v) for v in r): (int(c[0]), int(c[1]))
                            for r, c in zip(other.exponents, other.coefficients)}
                    if got2 != want:
                        bad = f"rebuild from {label} differs: {sorted(set(got2) ^ set(want))[:4]}"
            if bad:
                ctx.violation(dict(facts, failure="wrong_monomial"),
                              f"exponents {start}..{exps[-1]} (position {pos} of {ndim}): {bad}", case)
            if ci == 0 and pos == 0 and ndim == 1:
                ctx.sample(case)
            ctx.end()
    if spec["part"] == 0:
        boundary(ctx, numpoly)


def boundary(ctx, numpoly):
    """Bands where the key character is not representable: must raise, never alias."""
    cands = list(range(0xD800 - 59 - 3, 0xD800 - 59 + 6)) + list(range(0xDFFF - 59 - 3, 0xDFFF - 59 + 5)) \
        + [0x10FFFF - 59 - 1, 0x10FFFF - 59, 0x10FFFF - 59 + 1, 0x110000, 2 ** 31 - 60, 2 ** 32 - 60]
    for e in cands:
        case = {"op": "boundary", "exponent": e}
        if not ctx.begin(case):
            continue
        ctx.evaluated(("boundary", band(e)), True)
        ctx.count("boundary_exponents")
        try:
            with warnings.catch_warnings():
                warnings.simplefilter("ignore")
                poly = numpoly.polynomial_from_attributes([[e], [1]], [3, 5], names=("q0",))
                rows = sorted(int(r[0]) for r in poly.exponents)
                back = numpoly.polynomial(poly.values, names=("q0",))
                rows2 = sorted(int(r[0]) for r in back.exponents)
                rows3 = sorted(int(r[0]) for r in pickle.loads(pickle.dumps(poly)).exponents)
        except Exception:  # raising is the accepted outcome here
            ctx.count("boundary_raised")
            ctx.end()
            continue
        if rows != [1, e] or rows2 != [1, e] or rows3 != [1, e]:
            ctx.violation({"op": "boundary", "failure": "wrong_monomial", "band": band(e)},
                          f"exponent {e} stored as {rows} / rebuilt {rows2} / unpickled {rows3}", case)
        ctx.end()


# ---------------------------------------------------------------------------
def product_pairs(tier, rng):
    pairs = []
    if tier == "thorough":
        for a in range(0, 601):
            for b in range(a, 601 - a):
                pairs.append((a, b))
    else:
        for total in list(range(60, 76)) + list(range(120, 136)) + list(range(190, 202)) + \
                list(range(250, 262)) + [300, 400, 511, 512, 513, 600]:
            for a in (0, 1, 2, total // 2, total - 1, total):
                if 0 <= a <= total:
                    pairs.append((min(a, total - a), max(a, total - a)))
        for _ in range(2500):
            a = rng.randint(0, 600)
            b = rng.randint(0, 600 - a)
            pairs.append((min(a, b), max(a, b)))
        pairs = sorted(set(pairs))
    return pairs


def run_products(spec, ctx):
    import numpoly

    rng = random.Random(spec["seed"] * 31 + 20)
    pairs = product_pairs(spec["tier"], rng)
    for pi, (a, b) in enumerate(pairs):
        if pi % spec["parts"] != spec["part"]:
            continue
        case = {"op": "multiply", "a": a, "b": b}
        if not ctx.begin(case):
            continue
        facts = {"op": "multiply", "band": band(a + b), "max_product_key_code": a + b + 59}
        c, d = 3, -2
        try:
            with warnings.catch_warnings():
                warnings.simplefilter("ignore")
                x = numpoly.polynomial_from_attributes([[a]], [c], names=("q0",))
                y = numpoly.polynomial_from_attributes([[b]], [d], names=("q0",))
                results = [("single", x * y, mono(["q0"], [a + b], c * d))]
                if a and b:
                    x2 = numpoly.polynomial_from_attributes([[a], [0]], [1, 1], names=("q0",))
                    y2 = numpoly.polynomial_from_attributes([[b], [0]], [1, 3], names=("q0",))
                    want2 = (mono(["q0"], [a]) + M.MP.const(1)) * (mono(["q0"], [b]) + M.MP.const(3))
                    results.append(("two-term", numpoly.multiply(x2, y2), want2))
                if a and b:
                    # the large exponent sits in a *later* indeterminate, while the
                    # lexicographically last product row is small
                    x4 = numpoly.polynomial_from_attributes([[1, 0], [0, a]], [1, 2], names=("q0", "q1"))
                    y4 = numpoly.polynomial_from_attributes([[0, b], [0, 0]], [3, 5], names=("q0", "q1"))
                    xm4 = M.MP.from_rows(["q0", "q1"], [[1, 0], [0, a]], [1, 2])
                    ym4 = M.MP.from_rows(["q0", "q1"], [[0, b], [0, 0]], [3, 5])
                    results.append(("late-indeterminate", x4 * y4, xm4 * ym4))
                    x5 = numpoly.polynomial_from_attributes([[2, 0, 1], [0, 1, a]], [1.5, 2.0],
                                                            names=("q0", "q1", "q2"))
                    y5 = numpoly.polynomial_from_attributes([[0, 0, b], [1, 0, 0]], [4.0, -1.0],
                                                            names=("q0", "q1", "q2"))
                    xm5 = M.MP.from_rows(["q0", "q1", "q2"], [[2, 0, 1], [0, 1, a]], [1.5, 2.0])
                    ym5 = M.MP.from_rows(["q0", "q1", "q2"], [[0, 0, b], [1, 0, 0]], [4.0, -1.0])
                    results.append(("late-indeterminate-3", x5 * y5, xm5 * ym5))
                if pi % 3 == 0 and a != 1 and b != 2 and a != b:
                    x3 = numpoly.polynomial_from_attributes([[a, 2], [1, b]], [[1, 2], [3, 4]],
                                                            names=("q0", "q1"))
                    y3 = numpoly.polynomial_from_attributes([[b, 0], [0, a]], [[1, 1], [2, 5]],
                                                            names=("q0", "q1"))
                    xm = numpy.empty(2, dtype=object)
                    ym = numpy.empty(2, dtype=object)
                    for k in range(2):
                        xm[k] = M.MP.from_rows(["q0", "q1"], [[a, 2], [1, b]], [[1, 2][k], [3, 4][k]])
                        ym[k] = M.MP.from_rows(["q0", "q1"], [[b, 0], [0, a]], [[1, 1][k], [2, 5][k]])
                    results.append(("bivariate", x3 * y3, M.m_mul(xm, ym)))
        except Exception as err:  # pylint: disable=broad-except
            ctx.violation(dict(facts, failure=exc_fact(err)),
                          f"(q0**{a})*(q0**{b}) raised {type(err).__name__}: {err}\n{tb_short(err)}",
                          case)
            ctx.end()
            continue
        ctx.count("products", len(results))
        ctx.evaluated(("multiply", band(a + b)), a + b >= 69, n=len(results))
        for label, got, want in results:
            problem = O.mismatch(got, want)
            if problem is not None:
                ctx.violation(dict(facts, failure="wrong_monomial", form=label),
                              f"{label} product with exponents {a}, {b}: {problem[1]}", case)
                break
        if pi < 2:
            ctx.sample(case)
        ctx.end()


# ---------------------------------------------------------------------------
def run_random_case(case, ctx):
    import time as _time

    started = _time.time()
    try:
        _run_random_case(case, ctx)
    finally:
        ctx.counters["seconds_" + case["op"]] = ctx.counters.get("seconds_" + case["op"], 0) + \
            int((_time.time() - started) * 1000)


def _run_random_case(case, ctx):
    import numpoly

    op = case["op"]
    names = tuple(case["names"])
    rows = case["rows"]
    coefs = case["coefs"]
    facts = {"op": op, "band": band(max(max(r) for r in rows)), "n_names": len(names)}
    big = max(max(r) for r in rows)
    ctx.evaluated((op, band(big), len(names)), big >= 69)
    ctx.count("random_ops")
    pm = M.wrap(M.MP.from_rows(names, rows, coefs))
    try:
        with warnings.catch_warnings():
            warnings.simplefilter("ignore")
            poly = numpoly.polynomial_from_attributes(rows, coefs, names=names)
            if op == "power":
                k = case["k"]
                got, want = poly ** k, M.m_pow(pm, k)
            elif op == "derivative":
                name = names[case["var"]]
                got = numpoly.derivative(poly, name)
                want = M.m_map(lambda e: e.derivative(name), pm)
            elif op == "evaluate":
                values = {n: v for n, v in zip(names, case["values"])}
                got = poly(**values)
                want = M.wrap(M.MP.const(M.c_py(pm[()].evaluate(values))))
            elif op == "substitute":
                target = names[case["var"]]
                other = numpoly.symbols("q7")
                got = poly(**{target: other})
                want = M.m_map(lambda e: e.subs({target: M.MP.var("q7")}), pm)
            elif op == "align":
                other_rows = case["rows2"]
                names2 = case.get("names2", names)
                other = numpoly.polynomial_from_attributes(other_rows, case["coefs2"], names=names2)
                om = M.wrap(M.MP.from_rows(names2, other_rows, case["coefs2"]))
                x, y = numpoly.align_polynomials(poly, other)
                for label, g, w in (("first", x, pm), ("second", y, om), ("sum", x + y, M.m_add(pm, om))):
                    problem = O.mismatch(g, w)
                    if problem:
                        ctx.violation(dict(facts, failure="wrong_monomial", form=label),
                                      f"align {label}: {problem[1]}", case)
                        return
                if x.exponents.tolist() != y.exponents.tolist() or \
                        len({tuple(r) for r in x.exponents.tolist()}) != len(x.exponents):
                    ctx.violation(dict(facts, failure="wrong_monomial", form="rows"),
                                  "aligned exponent rows differ or repeat", case)
                return
            elif op == "reuse":
                # the operand is used again after it was differentiated / evaluated
                name = names[case["var"]]
                numpoly.derivative(poly, name)
                numpoly.gradient(poly)
                poly(**{n: 1 for n in names})
                other = numpoly.polynomial_from_attributes([[2] * len(names)], [3], names=names)
                om = M.wrap(M.MP.from_rows(names, [[2] * len(names)], [3]))
                for label, g_, w_ in (("product", poly * other, M.m_mul(pm, om)),
                                      ("pickle", pickle.loads(pickle.dumps(poly)), pm),
                                      ("sum", poly + other, M.m_add(pm, om)),
                                      ("derivative", numpoly.derivative(poly, name),
                                       M.m_map(lambda e: e.derivative(name), pm))):
                    problem = O.mismatch(g_, w_)
                    if problem:
                        ctx.violation(dict(facts, failure="wrong_monomial", form=label),
                                      f"operand reused after derivative/gradient/call: {label}: "
                                      f"{problem[1]}", case)
                        return
                rows_now = sorted(tuple(int(v) for v in r) for r in poly.exponents)
                if rows_now != sorted(tuple(r) for r in rows):
                    ctx.violation(dict(facts, failure="wrong_monomial", form="exponents"),
                                  f"exponents of the reused operand changed: {rows_now} vs {rows}", case)
                return
            elif op == "pickle":
                got, want = pickle.loads(pickle.dumps(poly, protocol=case["protocol"])), pm
            elif op == "arith":
                names2 = case.get("names2", names)
                other = numpoly.polynomial_from_attributes(case["rows2"], case["coefs2"], names=names2)
                om = M.wrap(M.MP.from_rows(names2, case["rows2"], case["coefs2"]))
                got, want = poly - other + poly, M.m_add(M.m_sub(pm, om), pm)
            else:
                raise ValueError(op)
    except Exception as err:  # pylint: disable=broad-except
        if big < LIMIT and not (op == "power" and big * case.get("k", 1) >= LIMIT):
            ctx.violation(dict(facts, failure=exc_fact(err)),
                          f"{op} with exponents {rows} raised {type(err).__name__}: {err}\n"
                          f"{tb_short(err)}", case)
        else:
            ctx.count("raised_beyond_limit")
        return
    problem = O.mismatch(got, want)
    if problem is not None:
        ctx.violation(dict(facts, failure="wrong_monomial"),
                      f"{op} with exponents {rows}: {problem[1]}", case)


def gen_random(rng):
    nn = rng.choice([1, 2, 3])
    names = [f"q{i}" for i in range(nn)]
    if rng.random() < 0.25:
        # indices whose string order differs from their numeric order
        names = rng.choice([["q2", "q10"], ["q10"], ["q1", "q2", "q10"], ["q9", "q11"], ["q2"]])
        nn = len(names)
    top = rng.choice([100, 300, 1000, 10000, 54999, 54999, 10 ** 5])

    def row():
        return [rng.choice([0, 1, rng.randint(0, top), rng.randint(max(top - 5, 0), top)])
                for _ in range(nn)]
    rows = []
    while len(rows) < rng.choice([1, 2, 3]):
        r = row()
        if r not in rows:
            rows.append(r)
    coefs = [rng.choice([1, -1, 2, 3, -5]) for _ in rows]
    op = rng.choice(["power", "derivative", "evaluate", "substitute", "align", "pickle", "arith",
                     "reuse", "reuse"])
    case = {"op": op, "names": names, "rows": rows, "coefs": coefs}
    if op == "power":
        case["k"] = rng.choice([2, 2, 3])
        limit = max(1, 10 ** 5 // case["k"])
        case["rows"] = [[min(v, limit) for v in r] for r in rows]
        uniq = []
        for r in case["rows"]:
            if r not in uniq:
                uniq.append(r)
        case["rows"], case["coefs"] = uniq, coefs[:len(uniq)]
    if op in ("derivative", "substitute", "reuse"):
        case["var"] = rng.randrange(nn)
    if op == "reuse":
        # every term contains the variable (positive exponent)
        for r in case["rows"]:
            r[case["var"]] = max(r[case["var"]], rng.choice([1, 3, 150]))
        uniq, ucoef = [], []
        for r, c in zip(case["rows"], case["coefs"]):
            if r not in uniq:
                uniq.append(r)
                ucoef.append(c)
        case["rows"], case["coefs"] = uniq, ucoef
    if op == "substitute":
        # substitution raises the argument to the exponent by repeated
        # multiplication: keep the substituted exponent small
        # (every indeterminate, substituted or not, is raised to its exponent
        # by repeated multiplication inside call())
        cap = rng.choice([70, 130, 260])
        for r in case["rows"]:
            for k in range(len(r)):
                r[k] = min(r[k], cap + k)
        uniq, ucoef = [], []
        for r, c in zip(case["rows"], case["coefs"]):
            if r not in uniq:
                uniq.append(r)
                ucoef.append(c)
        case["rows"], case["coefs"] = uniq, ucoef
    if op == "evaluate":
        case["values"] = [rng.choice([1, -1, 0, 1.0]) for _ in names]
    if op in ("align", "arith"):
        rows2 = []
        while len(rows2) < rng.choice([1, 2]):
            r = row()
            if r not in rows2:
                rows2.append(r)
        if rng.random() < 0.5 and list(rows[0]) not in rows2:
            rows2[0] = list(rows[0])  # shared monomial must merge
        case["rows2"] = rows2
        case["coefs2"] = [rng.choice([1, 4, -3]) for _ in rows2]
        if rng.random() < 0.35:
            # the second operand mentions another set of indeterminates (subset, superset, disjoint)
            pool = sorted(set(names) | {"q2", "q10", "q0"}, key=lambda n: int(n[1:]))
            names2 = sorted(rng.sample(pool, rng.randint(1, min(3, len(pool)))),
                            key=lambda n: int(n[1:]))
            width = len(names2)
            rows2 = []
            while len(rows2) < rng.choice([1, 2]):
                r = [rng.choice([0, 1, rng.randint(0, top), rng.randint(max(top - 5, 0), top)])
                     for _ in range(width)]
                if r not in rows2:
                    rows2.append(r)
            case["names2"], case["rows2"] = names2, rows2
            case["coefs2"] = case["coefs2"][:len(rows2)] + [4] * (len(rows2) - len(case["coefs2"]))
    if op == "pickle":
        case["protocol"] = rng.choice([0, 2, 4, 5])
    return case


def run_random(spec, ctx):
    rng = random.Random(spec["seed"] * 1009 + spec["part"] * 77 + 20)
    for i in range(spec["n"]):
        case = gen_random(rng)
        if i < 2 and spec["part"] == 0:
            ctx.sample(case)
        ctx.run_case(case, lambda c: run_random_case(c, ctx))


# ---------------------------------------------------------------------------
SPECIAL_CODES = [0x7F, 0x80, 0x85, 0xA0, 0xAD, 0xFF, 0x100, 0x1680, 0x2000, 0x2003, 0x200A, 0x2028,
                 0x2029, 0x202F, 0x205F, 0x3000, 0xFEFF, 0xFFFD, 0xFFFE, 0xFFFF, 0x1C, 0x1F]


def run_text(spec, ctx):
    import shutil
    import tempfile

    scratch = tempfile.mkdtemp(prefix="numpoly-verif-c20-")
    try:
        _run_text(spec, ctx, scratch)
    finally:
        shutil.rmtree(scratch, ignore_errors=True)


def _run_text(spec, ctx, scratch):
    import os

    import numpoly

    exps = list(range(0, 300 if spec["tier"] == "quick" else 2000))
    exps += [code - 59 for code in SPECIAL_CODES if code - 59 >= 0]
    exps += [1000, 5000, 54999, 65535 - 59, 65536 - 59, 70000]
    for e in exps:
        for ndim in (1, 2):
            case = {"op": "text", "exponent": e, "ndim": ndim}
            if not ctx.begin(case):
                continue
            ctx.evaluated(("text", band(e), ndim), e >= 69)
            ctx.count("text_exponents")
            names = ("q0", "q1")[:ndim]
            rows = [[e] + [0] * (ndim - 1), [1] + [2] * (ndim - 1), [0] * ndim]
            if e in (0, 1):
                rows = [[e + 5] + [0] * (ndim - 1)] + rows[1:]
            coefs = [numpy.array([1.5, 2.0]), numpy.array([-1.0, 0.5]), numpy.array([4.0, 0.0])]
            want = numpy.empty(2, dtype=object)
            for k in range(2):
                want[k] = M.MP.from_rows(names, rows, [c[k] for c in coefs])
            for route in ("stringio", "bytesio", "path-latin1", "path-utf8", "path-default"):
                try:
                    with warnings.catch_warnings():
                        warnings.simplefilter("ignore")
                        poly = numpoly.polynomial_from_attributes(rows, coefs, names=names)
                        if route == "stringio":
                            handle = io.StringIO()
                            numpoly.savetxt(handle, poly)
                            handle.seek(0)
                            back = numpoly.loadtxt(handle)
                        elif route == "bytesio":
                            handle = io.BytesIO()
                            numpoly.savetxt(handle, poly)
                            handle.seek(0)
                            back = numpoly.loadtxt(handle)
                        else:
                            path = os.path.join(scratch, f"e{e}-{ndim}.txt")
                            enc = {"path-latin1": {"encoding": "latin1"},
                                   "path-utf8": {"encoding": "utf-8"}, "path-default": {}}[route]
                            numpoly.savetxt(path, poly, **enc)
                            back = numpoly.loadtxt(path, **enc)
                except Exception:  # an error is the accepted outcome for text files
                    ctx.count("text_raised")
                    continue
                ctx.count("text_loaded")
                problem = O.mismatch(back, want, rtol=1e-12)
                if problem is not None:
                    ctx.violation({"op": "text", "failure": "wrong_monomial", "band": band(e),
                                   "key_code": e + 59, "route": route},
                                  f"exponent {e} (key code {e + 59:#x}) saved and loaded ({route}) as "
                                  f"a different polynomial: {problem[1]}", case)
                    break
            ctx.end()
    ctx.sample({"op": "text", "exponent": 74, "ndim": 1})


def run(spec, ctx):
    import numpoly  # noqa: F401

    if "replay_case" in spec:
        case = spec["replay_case"]
        op = case.get("op")
        if op in ("encode", "boundary"):
            run_encode(dict(spec, kind="encode", part=0, parts=1), ctx)
        elif op == "multiply":
            run_products(dict(spec, kind="products", part=0, parts=1), ctx)
        elif op == "text":
            run_text(spec, ctx)
        else:
            ctx.run_case(case, lambda c: run_random_case(c, ctx))
        return
    {"encode": run_encode, "products": run_products, "random": run_random,
     "text": run_text}[spec["kind"]](spec, ctx)
