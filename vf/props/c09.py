"""C09: shape functions and indexing move whole polynomial elements like numpy."""
from __future__ import annotations

from vf import catalogue as C
from vf import catrun

META = {
    "level": "exploration",
    "rule": (
        "per catalogue entry (reshape transpose moveaxis expand_dims atleast_1d/2d/3d repeat tile "
        "concatenate stack hstack vstack dstack split array_split hsplit vsplit dsplit diag diagonal "
        "broadcast_arrays where choose full full_like getitem iter ravel flatten T flat copy) seeded "
        "valid arguments x operand classes (0-d..3-d incl. size-1 axes, transposed views, narrow "
        "coefficient dtypes, differing "
        "name/term sets for joins) x spelling (numpoly / numpy / method); expected = numpy itself "
        "applied to an object array of opaque model polynomials; signature = (function, spelling, "
        "shapes, operand kinds, argument pattern); non-trivial when an operand has >= 2 elements"
    ),
    "assumptions": ["numpy's own placement of opaque objects is the reference for element movement"],
    "min_evaluations": {"quick": 20000, "thorough": 400000},
}


def shards(tier, seed):
    n = 8 if tier == "quick" else 16
    per = 120 if tier == "quick" else 1500
    return [{"part": i, "per_op": per} for i in range(n)]


def facts_of_case(case):
    return {"op": case.get("op", "?")}


def run(spec, ctx):
    catrun.run_group(spec, ctx, C.GROUP_C09, spec.get("per_op", 1), gen_cls=catrun.NarrowGen)
