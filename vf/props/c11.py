"""C11: on constant polynomials every mirrored function behaves exactly like numpy."""
from __future__ import annotations

import numpy

from vf import catalogue as C
from vf import catrun
from vf import gen as G
from vf import oracle as O
from vf.harness import exc_fact, tb_short

META = {
    "level": "exploration",
    "rule": (
        "every catalogue entry (shape / join / split / select / index / reduce / linalg / numeric "
        "mirror groups; the registries are read at run time and registered functions without an "
        "argument generator are listed as unmodelled) x constant polynomial arrays of 0-3 "
        "dimensions with repeated values (ties), negatives, zeros, ints and floats x all "
        "axis/keepdims arguments x numpoly/numpy spelling; expected = the numpy function on the "
        "raw numeric arrays: values, shape, and dtype kind for boolean / index results; numeric "
        "division with a non-constant divisor must raise FeatureNotSupported. signature = "
        "(function, spelling, shapes, argument pattern); non-trivial when the array has >= 2 "
        "elements and contains a tie or a negative"
    ),
    "assumptions": ["narrow coefficient dtypes (8/16/32 bit) are only paired with array operands, "
                    "not with bare Python scalars (numpy's weak-scalar promotion is not modelled)",
                    "float results compared with rtol 1e-12 (same numpy kernels on both sides); "
                    "linear algebra on floats with an absolute tolerance of 1e-9 x the magnitude a "
                    "product of entries can reach (numpy's LU / BLAS round differently)"],
    "min_evaluations": {"quick": 15000, "thorough": 300000},
    "required_counters": ["division_guard"],
}


def shards(tier, seed):
    n = 8 if tier == "quick" else 16
    per = 40 if tier == "quick" else 500
    return [{"part": i, "per_op": per} for i in range(n)]


def facts_of_case(case):
    return {"op": case.get("op", "?")}


def norm(value):
    import numpoly

    if isinstance(value, (tuple, list)):
        return [norm(v) for v in value]
    if isinstance(value, numpoly.ndpoly):
        return value.tonumpy()
    if isinstance(value, numpy.flatiter):
        return numpy.array(list(value))
    if isinstance(value, numpy.dtype):
        return value
    return numpy.asarray(value)


def compare(got, want, path="result", atol=0.0):
    """None when equal; else text."""
    if isinstance(want, list):
        if not isinstance(got, list) or len(got) != len(want):
            return f"{path}: expected a sequence of {len(want)} results, got {type(got).__name__}" \
                   f"{' of ' + str(len(got)) if isinstance(got, list) else ''}"
        for i, (g, w) in enumerate(zip(got, want)):
            text = compare(g, w, f"{path}[{i}]", atol)
            if text:
                return text
        return None
    if isinstance(want, numpy.dtype):
        return None if got == want else f"{path}: dtype {got} != numpy's {want}"
    if isinstance(got, list):
        return f"{path}: got a sequence, numpy returns an array"
    if got.dtype.names is not None:
        return f"{path}: raw structured storage returned"
    if tuple(got.shape) != tuple(want.shape):
        return f"{path}: shape {got.shape} != numpy's {want.shape}"
    if want.dtype.kind == "b" and got.dtype.kind != "b":
        return f"{path}: dtype {got.dtype} where numpy returns bool"
    if want.dtype.kind in "iu" and got.dtype.kind not in "iu":
        return f"{path}: dtype {got.dtype} where numpy returns integers ({want.dtype})"
    if want.dtype.kind in "iub":
        ok = numpy.array_equal(got, want)
    else:
        # a few units in the last place of the *result type*: numpoly reduces axis by axis, numpy in
        # one sweep, so in float16 / float32 the two orders of multiplication round differently
        rtol = max(1e-12 if not atol else 1e-9, 8 * float(numpy.finfo(want.dtype).eps))
        ok = numpy.allclose(got, want, rtol=rtol, atol=atol, equal_nan=True)
    if not ok:
        return f"{path}: values {got.tolist()!r:.300} != numpy's {want.tolist()!r:.300}"
    return None


def run_case(case, ctx):
    import numpoly

    op = C.OPS[case["op"]]
    spelling = case["spelling"]
    specs, kw = case["operands"], case["kw"]
    numeric = [C.const_array(s) if s["k"] == "poly" else G.build(s) for s in specs]
    real = [G.build(s) for s in specs]
    try:
        want = norm(op.call(catrun.NUMPY_NS, numeric, kw))
    except Exception as err:  # numpy rejects these arguments: not a case
        ctx.count("skipped_invalid_arguments")
        return
    shapes = tuple(tuple(numpy.shape(x)) for x in numeric)
    flat = numpy.concatenate([numpy.ravel(x).astype(float) for x in numeric]) if numeric else \
        numpy.zeros(0)
    nontrivial = flat.size >= 2 and (len(set(flat.tolist())) < flat.size or (flat < 0).any())
    sig = catrun.signature(op, case, spelling)
    ctx.evaluated(sig, nontrivial)
    ctx.count(f"op_{op.name}")
    facts = catrun.case_facts(op, case, spelling) if specs else {
        "op": op.name, "spelling": spelling, "kw": ",".join(sorted(kw)), "max_ndim": 0}
    facts.update({"has_axis": "axis" in kw and kw["axis"] is not None,
             "keepdims": bool(kw.get("keepdims")),
             "has_ties": bool(flat.size and len(set(flat.tolist())) < flat.size),
             })
    try:
        got = catrun.execute(op, spelling, real, kw)
        got = norm(got)
    except numpoly.FeatureNotSupported as err:
        facts["failure"] = "exception:FeatureNotSupported"
        ctx.violation(facts, f"{op.name}/{spelling} kw={kw}: {err}\n{tb_short(err)}", case)
        return
    except Exception as err:  # pylint: disable=broad-except
        O.report_exception(ctx, facts, err, case, what=f"{op.name}/{spelling} kw={kw}")
        return
    # numpy's own linear algebra (LU based det, blocked matmul) rounds differently
    # from exact cofactor / term-wise arithmetic: absolute tolerance scaled by the
    # magnitude a product of entries can reach
    atol = 0.0
    if op.group == "linalg" and flat.size and (flat.dtype.kind == "f" or op.name == "det"):
        width = max(max(s) if s else 1 for s in shapes)
        atol = 1e-9 * (float(numpy.abs(flat).max()) + 1.0) ** (width if op.name == "det" else 2)
    text = compare(got, want, atol=atol)
    if text:
        kind = "shape" if "shape" in text else ("dtype" if "dtype" in text else "value")
        facts["failure"] = kind
        ctx.violation(facts, f"{op.name}/{spelling} kw={kw} on {[numpy.asarray(x).tolist() for x in numeric]!r:.300}: {text}", case)


def _const(data, dtype, kind):
    return {"k": "poly", "names": ["q0"], "exps": [[0]], "coefs": [data], "kind": kind,
            "shape": list(numpy.shape(data)), "via": "attrs", "const": True, "dtype": dtype}


# fixed cases run in every tier and seed (each recorded finding is exercised by one of them)
DIRECTED = [
    {"op": "det", "operands": [_const([[0, 1], [2, 1]], "uint8", "int")], "kw": {}},
    {"op": "det", "operands": [_const([[3, 3, 0], [0, 3, 3], [3, 0, 3]], "int8", "int")], "kw": {}},
    {"op": "prod", "operands": [_const([[-2, 3, 3], [3, 3, 2]], "int8", "int")], "kw": {}},
    {"op": "floor_divide", "operands": [_const([7, 9, 100], "int32", "int"),
                                        _const([2, 3, 7], "int32", "int")], "kw": {}},
    {"op": "floor_divide", "operands": [_const([60000.0, 33333.0], "float16", "float"),
                                        _const([7, 3], "int64", "int")], "kw": {}},
]


def division_guard(ctx):
    """Numeric division functions must refuse a non-constant polynomial divisor."""
    import numpoly

    q0, q1 = numpoly.variable(2)
    # ... also where the divisor arrives as a list / tuple / nested list that contains polynomials
    divisors = [q0, numpoly.polynomial([q0 + 1, 2]), q0 * q1 - 1, [2, q0 + 1], (q0, 3),
                [[q0 * q1], [1]], [numpoly.polynomial(2), q1]]
    for name in ("floor_divide", "true_divide", "divide", "remainder", "mod", "divmod"):
        for ns_name, ns in (("numpoly", numpoly), ("numpy", numpy)):
            for divisor in divisors:
                for dividend in (numpoly.polynomial([4, 6]), numpy.array([4.0, 6.0]), 7):
                    if ns_name == "numpy" and not isinstance(divisor, numpoly.ndpoly) and \
                            not isinstance(dividend, numpoly.ndpoly):
                        continue  # no polynomial among the arguments: numpy never dispatches
                    case = {"op": name, "spelling": ns_name, "guard": repr(divisor)}
                    ctx.count("division_guard")
                    ctx.evaluated(("guard", name, ns_name, repr(divisor), type(dividend).__name__),
                                  True)
                    try:
                        res = getattr(ns, name)(dividend, divisor)
                    except numpoly.FeatureNotSupported:
                        continue
                    except Exception as err:  # pylint: disable=broad-except
                        ctx.violation({"op": name, "spelling": ns_name, "guard": True,
                                       "failure": exc_fact(err)},
                                      f"{ns_name}.{name}(.., {divisor}) raised {type(err).__name__} "
                                      f"instead of FeatureNotSupported: {err}", case)
                        continue
                    ctx.violation({"op": name, "spelling": ns_name, "guard": True,
                                   "failure": "accepted"},
                                  f"{ns_name}.{name}({dividend!r}, {divisor}) divided coefficient-"
                                  f"wise: {res!r:.200}", case)


def unmodelled(ctx):
    import numpoly

    registered = set()
    for func in list(numpoly.FUNCTION_COLLECTION) + list(numpoly.UFUNC_COLLECTION):
        registered.add(getattr(func, "__name__", str(func)))
    known = {op.npname.split(".")[-1] for op in C.OPS.values()} | set(C.OPS)
    missing = sorted(registered - known)
    ctx.count("registered_functions", len(registered))
    ctx.count("registered_without_generator", len(missing))
    if missing:
        ctx.note("registered functions without an argument generator (unmodelled): " +
                 ", ".join(missing))


def run(spec, ctx):
    if "replay_case" in spec:
        case = spec["replay_case"]
        if "guard" in case:
            division_guard(ctx)
        else:
            ctx.run_case(case, lambda c: run_case(c, ctx))
        return
    if spec["part"] == 0:
        if ctx.begin({"op": "division_guard"}):
            division_guard(ctx)
            unmodelled(ctx)
            ctx.end()
    if spec["part"] == 0:
        for case in DIRECTED:
            for spelling in ("numpoly", "numpy"):
                ctx.run_case(dict(case, spelling=spelling), lambda c: run_case(c, ctx))
    g = C.ConstGen(spec["seed"] * 1000003 + spec["part"] * 7919 + 11)
    names = list(C.OPS)
    for i in range(spec["per_op"]):
        for name in names:
            case = catrun.gen_case(g, name)
            if any(s["k"] == "py" for s in case["operands"]):
                # a Python scalar has no dtype: numpy's weak-scalar promotion (version dependent)
                # is not part of "the numpy function on the underlying numeric arrays"
                for s in case["operands"]:
                    if s["k"] == "poly":
                        s.pop("dtype", None)
            if i == 0 and spec["part"] == 0 and name in ("argmax", "amax", "concatenate"):
                ctx.sample(case)
            ctx.run_case(case, lambda c: run_case(c, ctx))
