"""C19: leading-term queries, decomposition and the sort proxy match the polynomial."""
from __future__ import annotations

import numpy

from vf import gen as G
from vf import model as M
from vf import oracle as O
from vf.harness import exc_fact, tb_short

META = {
    "level": "exploration",
    "rule": (
        "seeded polynomial arrays (C01 classes incl. zero elements, equal leading terms, negative "
        "leading coefficients, explicit zero-coefficient terms, transposed views) x graded/reverse "
        "flags and sort options x target dimensions 1..5: lead_exponent / lead_coefficient against "
        "the model's largest non-zero term; isconstant, tonumpy (error for non-constants), todict, "
        "decompose (one monomial per slice, slices sum to the input), set_dimensions (up: same "
        "polynomial + names; down: exactly the terms free of dropped indeterminates); "
        "sortable_proxy is a permutation of 0..size-1, monotone in (leading exponent, leading "
        "coefficient), numeric rank on constants; argmax/argmin/amax/amin without axis pick an "
        "extreme element. signature = (function, shape, coefficient kind, flags); non-trivial when "
        "some element has >= 2 terms or is zero"
    ),
    "assumptions": ["which of several tied non-constant elements argmax picks is not asserted"],
    "min_evaluations": {"quick": 8000, "thorough": 150000},
}
FUNCS = ["lead", "lead", "isconstant", "tonumpy", "todict", "decompose", "set_dimensions",
         "set_dimensions", "sortable_proxy", "sortable_proxy", "extreme", "extreme"]


def shards(tier, seed):
    n = 8 if tier == "quick" else 16
    per = 1200 if tier == "quick" else 12000
    return [{"part": i, "n": per} for i in range(n)]


def facts_of_case(case):
    return {"op": case.get("fn", "?")}


def gen_case(g):
    rng = g.rng
    fn = rng.choice(FUNCS)
    kind = rng.choice(["int", "int", "float"])
    shape = g.shape()
    names = rng.choice([["q0"], ["q0", "q1"], ["q0", "q1", "q2"], ["q1", "q2"], ["q2", "q10"],
                        ["q0", "q1", "q2", "q3"]])
    poly = g.poly(shape=shape, names=names, kind=kind, maxexp=rng.choice([2, 3]))
    if fn in ("tonumpy", "isconstant") and rng.random() < 0.5:
        # constant, possibly with retained zero non-constant terms
        for i, row in enumerate(poly["exps"]):
            if any(row):
                poly["coefs"][i] = G.nested_map(lambda v: 0 if kind == "int" else 0.0,
                                                poly["coefs"][i])
        poly["via"] = rng.choice(["attrs", "retain"])
    if fn in ("sortable_proxy", "extreme") and rng.random() < 0.4 and len(shape):
        # equal leading terms / constants with ties
        if rng.random() < 0.5:
            poly = g.poly(shape=shape, names=names, kind=kind, nterms=1)
            poly["exps"] = [[0] * len(names)]
            poly["coefs"] = poly["coefs"][:1]
    if poly["kind"] == "float" and rng.random() < 0.3:
        # coefficients far from unit magnitude: "non-zero" is exact, not a tolerance
        for i in rng.sample(range(len(poly["coefs"])), rng.randint(1, len(poly["coefs"]))):
            factor = rng.choice([1e-9, 1e-12, 1e-300, 1e9, 1e200, 3e-9])
            poly["coefs"][i] = G.nested_map(lambda v: v * factor, poly["coefs"][i])
        poly["scaled"] = True
    case = {"fn": fn, "poly": poly, "graded": rng.random() < 0.5, "reverse": rng.random() < 0.5}
    if fn in ("lead", "sortable_proxy") and rng.random() < 0.3:
        case["positional"] = True
    if fn == "set_dimensions":
        case["dimensions"] = rng.choice([None, 1, 2, 3, 4, 5])
        case["options"] = {"retain_names": rng.random() < 0.6, "retain_coefficients": rng.random() < 0.3}
    if fn == "extreme":
        case["options"] = {"sort_graded": rng.random() < 0.7, "sort_reverse": rng.random() < 0.3}
        case["which"] = rng.choice(["argmax", "argmin", "amax", "amin", "max_method", "min_method"])
    return case


def proxy_key(elem, names, graded, reverse):
    row, coef = elem.lead(names, graded, reverse)
    return (M.order_key(row, graded, reverse), coef[0])


def run_case(case, ctx):
    import numpoly

    spec = case["poly"]
    poly = G.build(spec)
    pm = G.model(spec)
    names = list(spec["names"])
    fn = case["fn"]
    graded, reverse = case["graded"], case["reverse"]
    elements = list(numpy.ndindex(*pm.shape))
    nontrivial = any(pm[i].nterms() >= 2 or pm[i].is_zero() for i in elements)
    facts = {"op": fn, "graded": graded, "reverse": reverse, "view": bool(spec.get("view")),
             "coef_kind": spec["kind"], "ndim": len(spec["shape"]),
             "scaled": bool(spec.get("scaled"))}
    sig = (fn, tuple(spec["shape"]), spec["kind"], graded, reverse, case.get("dimensions"),
           case.get("which"), len(names), bool(spec.get("scaled")))
    ctx.evaluated(sig, nontrivial)
    ctx.count(fn)
    try:
        if fn == "lead":
            if case.get("positional"):
                # the documented parameter order is (poly, graded, reverse)
                exp = numpoly.lead_exponent(poly, graded, reverse)
                coef = numpoly.lead_coefficient(poly, graded, reverse)
                ctx.count("positional_flags")
            else:
                exp = numpoly.lead_exponent(poly, graded=graded, reverse=reverse)
                coef = numpoly.lead_coefficient(poly, graded=graded, reverse=reverse)
            exp = numpy.asarray(exp)
            if tuple(exp.shape) != tuple(pm.shape) + (len(names),):
                ctx.violation(dict(facts, failure="shape"),
                              f"lead_exponent shape {exp.shape} != {tuple(pm.shape) + (len(names),)}",
                              case)
                return
            coef_arr = numpy.asarray(coef)
            if tuple(coef_arr.shape) != tuple(pm.shape):
                ctx.violation(dict(facts, failure="shape"),
                              f"lead_coefficient shape {coef_arr.shape} != {pm.shape}", case)
                return
            for idx in elements:
                row, value = pm[idx].lead(names, graded, reverse)
                if tuple(int(v) for v in exp[idx]) != tuple(row):
                    ctx.violation(dict(facts, failure="value", which="exponent"),
                                  f"lead_exponent{idx} = {exp[idx].tolist()} expected {row} for "
                                  f"{pm[idx]} (graded={graded}, reverse={reverse})", case)
                    return
                if M.coef(coef_arr[idx]) != value:
                    ctx.violation(dict(facts, failure="value", which="coefficient"),
                                  f"lead_coefficient{idx} = {coef_arr[idx]} expected {M.c_py(value)} "
                                  f"for {pm[idx]} (graded={graded}, reverse={reverse})", case)
                    return
            # the returned arrays are the caller's: overwrite them, the polynomial must not change
            for res in (exp, coef_arr):
                if isinstance(res, numpy.ndarray) and res.size and res.flags.writeable:
                    res[...] = 55
            ctx.count("result_overwritten")
            if O.mismatch(poly, pm) is not None:
                ctx.violation(dict(facts, failure="aliased_result"),
                              f"after writing into the arrays lead_exponent / lead_coefficient "
                              f"returned, the polynomial reads {poly!r:.160}", case)
                return
        elif fn == "isconstant":
            want = all(pm[i].is_const() for i in elements)
            for label, got in (("function", numpoly.isconstant(poly)), ("method", poly.isconstant())):
                if bool(got) != want:
                    ctx.violation(dict(facts, failure="value"),
                                  f"isconstant ({label}) = {got}, expected {want}: {M.describe(pm)}",
                                  case)
                    return
        elif fn == "tonumpy":
            const = all(pm[i].is_const() for i in elements)
            try:
                got = poly.tonumpy() if ctx.case_index % 2 else numpoly.tonumpy(poly)
            except numpoly.FeatureNotSupported:
                if const:
                    ctx.violation(dict(facts, failure="exception:FeatureNotSupported"),
                                  f"tonumpy raised for a constant polynomial {M.describe(pm)}", case)
                return
            if not const:
                ctx.violation(dict(facts, failure="accepted"),
                              f"tonumpy returned {got!r:.200} for non-constant {M.describe(pm)}", case)
                return
            if isinstance(got, numpoly.ndpoly) or O.mismatch(got, pm) is not None:
                ctx.violation(dict(facts, failure="value"),
                              f"tonumpy = {got!r:.200} for {M.describe(pm)}", case)
                return
            # what a query returns belongs to the caller: writing into it must not change what the
            # polynomial says afterwards
            if isinstance(got, numpy.ndarray) and got.size and got.flags.writeable and \
                    got.dtype.kind in "iufc":
                ctx.count("result_overwritten")
                got[...] = 99
                again = numpoly.tonumpy(poly)
                if O.mismatch(again, pm) is not None or O.mismatch(poly, pm) is not None:
                    ctx.violation(dict(facts, failure="aliased_result"),
                                  f"after writing into the array tonumpy returned, the polynomial "
                                  f"reads {poly!r:.120} / tonumpy {again!r:.120}, expected "
                                  f"{M.describe(pm)}", case)
        elif fn == "todict":
            got = poly.todict()
            total = M.oarray(pm.shape)
            for row, value in got.items():
                value = numpy.asarray(value)
                if len(row) != len(poly.names) or tuple(value.shape) != tuple(pm.shape):
                    ctx.violation(dict(facts, failure="shape"), f"todict entry {row}: {value!r:.100}",
                                  case)
                    return
                part = numpy.empty(pm.shape, dtype=object)
                for idx in elements:
                    part[idx] = M.MP.from_rows(poly.names, [row], [value[idx]])
                total = M.m_add(total, part)
            text = M.diff_arrays(total, pm)
            if text:
                ctx.violation(dict(facts, failure="value"), f"todict does not sum to the polynomial: "
                                                            f"{text}", case)
        elif fn == "decompose":
            got = numpoly.decompose(poly)
            gm = M.abstract(got)
            if tuple(gm.shape[1:]) != tuple(pm.shape):
                ctx.violation(dict(facts, failure="shape"),
                              f"decompose shape {gm.shape}, input shape {pm.shape}", case)
                return
            total = M.oarray(pm.shape)
            for k in range(gm.shape[0]):
                monos = set()
                for idx in elements:
                    monos |= set(gm[(k,) + idx].t)
                if len(monos) > 1:
                    ctx.violation(dict(facts, failure="value"),
                                  f"decompose slice {k} holds several monomials {monos}", case)
                    return
                total = M.m_add(total, M.wrap(gm[k]))
            text = M.diff_arrays(total, pm)
            if text:
                ctx.violation(dict(facts, failure="value"),
                              f"decompose slices do not sum to the input: {text}", case)
        elif fn == "set_dimensions":
            dims = case["dimensions"]
            defaults = numpoly.get_options()
            facts["retain_names"] = case.get("options", {}).get("retain_names", True)
            try:
                with numpoly.global_options(**case.get("options", {})):
                    got = numpoly.set_dimensions(poly, dims) if dims is not None else \
                        numpoly.set_dimensions(poly)
            finally:
                numpoly.set_options(**defaults)
            target = len(names) + 1 if dims is None else dims
            facts["direction"] = "up" if target > len(names) else (
                "down" if target < len(names) else "same")
            if len(got.names) != target:
                ctx.violation(dict(facts, failure="names"),
                              f"set_dimensions({dims}): names {got.names} (expected {target})", case)
                return
            if target >= len(names):
                want = pm
                if not set(names) <= set(got.names):
                    ctx.violation(dict(facts, failure="names"),
                                  f"set_dimensions({dims}) lost names: {got.names} vs {names}", case)
                    return
            else:
                kept = set(names[:target])
                want = M.m_map(lambda e: M.MP({m: v for m, v in e.t.items()
                                               if all(n in kept for n, _ in m)}), pm)
                if tuple(got.names) != tuple(names[:target]):
                    ctx.violation(dict(facts, failure="names"),
                                  f"set_dimensions({dims}): names {got.names} != {names[:target]}",
                                  case)
                    return
            problem = O.mismatch(got, want)
            if problem is not None:
                ctx.violation(dict(facts, failure=problem[0]),
                              f"set_dimensions({dims}): {problem[1]}\n  input={M.describe(pm, 300)}",
                              case)
                return
            if got.dtype != poly.dtype:
                ctx.violation(dict(facts, failure="dtype"),
                              f"set_dimensions changed dtype {poly.dtype} -> {got.dtype}", case)
        elif fn == "sortable_proxy":
            got = numpy.asarray(numpoly.sortable_proxy(poly, graded, reverse) if case.get("positional")
                                else numpoly.sortable_proxy(poly, graded=graded, reverse=reverse))
            if tuple(got.shape) != tuple(pm.shape):
                ctx.violation(dict(facts, failure="shape"), f"proxy shape {got.shape} != {pm.shape}",
                              case)
                return
            flat = [int(v) for v in got.ravel()]
            if sorted(flat) != list(range(len(flat))):
                ctx.violation(dict(facts, failure="not_permutation"),
                              f"sortable_proxy = {got.tolist()} is not a permutation of 0..{len(flat) - 1}",
                              case)
                return
            keys = [proxy_key(pm[idx], names, graded, reverse) for idx in elements]
            ranks = [int(got[idx]) for idx in elements]
            for i in range(len(keys)):
                for j in range(len(keys)):
                    if keys[i] < keys[j] and not ranks[i] < ranks[j]:
                        ctx.violation(dict(facts, failure="not_monotone"),
                                      f"sortable_proxy ranks {pm[elements[i]]} ({ranks[i]}) not below "
                                      f"{pm[elements[j]]} ({ranks[j]}) although (leading exponent, "
                                      f"leading coefficient) is smaller (graded={graded}, "
                                      f"reverse={reverse})", case)
                        return
        else:  # extreme element without axis
            which = case["which"]
            opts = case["options"]
            defaults = numpoly.get_options()
            try:
                with numpoly.global_options(**opts):
                    buf = None
                    if which in ("argmax", "argmin") and ctx.case_index % 2:
                        buf = numpy.full((), -7, dtype=numpy.intp)
                    if which == "argmax":
                        res = numpoly.argmax(poly, out=buf) if buf is not None else numpoly.argmax(poly)
                    elif which == "argmin":
                        res = numpoly.argmin(poly, out=buf) if buf is not None else numpoly.argmin(poly)
                    elif which == "amax":
                        res = numpoly.amax(poly)
                    elif which == "amin":
                        res = numpoly.amin(poly)
                    elif which == "max_method":
                        res = poly.max()
                    else:
                        res = poly.min()
            finally:
                numpoly.set_options(**defaults)
            facts["which"] = which
            g_, r_ = opts["sort_graded"], opts["sort_reverse"]
            keys = [proxy_key(pm[idx], names, g_, r_) for idx in elements]
            best = max(keys) if "max" in which else min(keys)
            if which.startswith("arg"):
                pos = int(res)
                if buf is not None and int(buf) != pos:
                    ctx.violation(dict(facts, failure="out"),
                                  f"{which}(poly, out=buf) returned {pos} but left {int(buf)} in buf",
                                  case)
                    return
                if not 0 <= pos < len(elements) or keys[pos] != best:
                    ctx.violation(dict(facts, failure="value"),
                                  f"{which} = {res}: element {pm[elements[pos]] if 0 <= pos < len(elements) else '?'} "
                                  f"is not extreme; extreme key {best}: {M.describe(pm, 300)}", case)
            else:
                rm = O.result_model(res)
                if rm.shape != ():
                    ctx.violation(dict(facts, failure="shape"), f"{which} shape {rm.shape}", case)
                    return
                candidates = [pm[idx] for idx, key in zip(elements, keys) if key == best]
                if not any(rm[()] == c for c in candidates):
                    ctx.violation(dict(facts, failure="value"),
                                  f"{which} = {rm[()]} is not an extreme element "
                                  f"({[str(c) for c in candidates][:3]}) of {M.describe(pm, 300)}", case)
    except Exception as err:  # pylint: disable=broad-except
        O.report_exception(ctx, facts, err, case, what=fn)


def directed_cases():
    """Extremes of one fixed array under all four sort settings, one after the other in one
    process (whatever was decided under an earlier setting must not stick)."""
    spec = {"k": "poly", "names": ["q0", "q1"],
            "exps": [[1, 0], [0, 1], [0, 0], [3, 0], [1, 1]],
            "coefs": [[1, 0, 0, 0, 0, 0], [0, 1, 0, 0, 0, 2], [0, 0, 3, 0, 0, 0],
                      [0, 0, 0, 1, 0, 0], [0, 0, 0, 0, 1, 0]],
            "kind": "int", "shape": [6], "via": "attrs"}
    out = []
    for _ in range(2):
        for graded, reverse in ((True, False), (False, False), (False, True), (True, True)):
            for which in ("argmax", "argmin", "amax", "amin"):
                out.append({"fn": "extreme", "poly": spec, "graded": graded, "reverse": reverse,
                            "options": {"sort_graded": graded, "sort_reverse": reverse},
                            "which": which})
    return out


def run(spec, ctx):
    if "replay_case" in spec:
        ctx.run_case(spec["replay_case"], lambda c: run_case(c, ctx))
        return
    g = G.Gen(spec["seed"] * 1000003 + spec["part"] * 7919 + 19)
    for case in directed_cases():  # in every shard: each worker is a process of its own
        ctx.run_case(case, lambda c: run_case(c, ctx))
    for i in range(spec["n"]):
        case = gen_case(g)
        if i < 3 and spec["part"] == 0:
            ctx.sample(case)
        ctx.run_case(case, lambda c: run_case(c, ctx))
