"""C07: comparison operators form one documented strict total order.

Offline order checker over the recorded relation: a universe U of small
polynomials is compared against itself with one broadcast call per operator,
giving six boolean |U| x |U| matrices; trichotomy, complements, antisymmetry,
transitivity (boolean matrix product) and agreement with the documented order
are decided on the matrices -- all pairs and all triples of U.
"""
from __future__ import annotations

import itertools
import operator
import random

import numpy

from vf import gen as G
from vf import model as M
from vf import oracle as O

META = {
    "level": "exploration",
    "rule": (
        "universes U1 (2 indeterminates, 6 monomials of degree <= 2, coefficients -1/0/1, all 729), "
        "U2 (3 indeterminates, 7 monomials of degree <= 2, coefficients 0/1/2, 729 sampled), U3 (3 "
        "indeterminates, the six degree-2 monomials + one cubic, 729 sampled), U4 (float "
        "coefficients, 2 indeterminates, 4 equal-degree monomials) compared against themselves "
        "under all four sort_graded/sort_reverse settings, in operator and numpy-function "
        "spellings: all pairs and all triples of each universe are decided on the six relation "
        "matrices; plus random pairs of larger polynomial arrays (many same-degree terms, "
        "broadcasting shapes, constants, numbers on either side) and maximum/minimum. evaluations "
        "= ordered pairs compared; signature = (universe or random class, option setting, "
        "spelling); non-trivial when the pair differs in a same-degree term"
    ),
    "exhaustive": {
        "quick": "all ordered pairs and all triples of U1 (729 polynomials) under each of the 4 sort settings",
        "thorough": "all ordered pairs and all triples of U1, U2, U3, U4 under each of the 4 sort settings",
    },
    "assumptions": ["complex coefficients, NaN and inf are outside the claim"],
    "min_evaluations": {"quick": 2000000, "thorough": 8000000},
    "required_counters": ["triples_checked", "random_pairs"],
}
SETTINGS = [(True, False), (True, True), (False, False), (False, True)]
OPS = [("lt", operator.lt, "less"), ("le", operator.le, "less_equal"), ("gt", operator.gt, "greater"),
       ("ge", operator.ge, "greater_equal"), ("eq", operator.eq, "equal"),
       ("ne", operator.ne, "not_equal")]


def universes(tier, seed):
    rng = random.Random(seed * 31 + 7)
    out = {}
    mons = [(0, 0), (1, 0), (0, 1), (2, 0), (1, 1), (0, 2)]
    out["U1"] = (["q0", "q1"], mons, [list(c) for c in itertools.product([-1, 0, 1], repeat=6)], "int")
    if tier == "thorough":
        mons2 = [(0, 0, 0), (1, 0, 0), (0, 0, 1), (1, 1, 0), (0, 2, 0), (1, 0, 1), (0, 1, 1)]
        allc = list(itertools.product([0, 1, 2], repeat=7))
        out["U2"] = (["q0", "q1", "q2"], mons2, [list(c) for c in rng.sample(allc, 729)], "int")
        mons3 = [(2, 0, 0), (0, 2, 0), (0, 0, 2), (1, 1, 0), (1, 0, 1), (0, 1, 1), (1, 1, 1)]
        out["U3"] = (["q0", "q1", "q2"], mons3, [list(c) for c in rng.sample(allc, 729)], "int")
        mons4 = [(3, 0), (2, 1), (1, 2), (0, 3)]
        vals = [-1.5, 0.0, 0.25, 2.0, -0.5]
        out["U4"] = (["q1", "q10"], mons4, [list(c) for c in itertools.product(vals, repeat=4)],
                     "float")
    else:
        mons3 = [(2, 0, 0), (0, 2, 0), (0, 0, 2), (1, 1, 0), (1, 0, 1), (0, 1, 1), (1, 1, 1)]
        allc = list(itertools.product([0, 1, 2], repeat=7))
        out["U3s"] = (["q0", "q1", "q2"], mons3, [list(c) for c in rng.sample(allc, 200)], "int")
    # unsigned coefficients (differences wrap around): 2 indeterminates, 4 monomials, 0..3
    mons5 = [(0, 0), (1, 0), (0, 1), (1, 1)]
    coefs5 = [list(c) for c in itertools.product([0, 1, 2, 3], repeat=4)]
    out["U5"] = (["q0", "q1"], mons5, coefs5 if tier == "thorough" else rng.sample(coefs5, 120),
                 rng.choice(["uint8", "uint16", "uint32", "uint64"]))
    return out


def shards(tier, seed):
    out = []
    for name in universes(tier, seed):
        for setting in SETTINGS:
            out.append({"kind": "universe", "universe": name, "graded": setting[0],
                        "reverse": setting[1]})
    nrand = 4 if tier == "quick" else 12
    for i in range(nrand):
        out.append({"kind": "random", "part": i, "n": 300 if tier == "quick" else 2500})
    return out


def facts_of_case(case):
    return {"op": "compare"}


def model_sign(coefs, mons, graded, reverse):
    """sign[i, j] = -1/0/+1 of universe element i vs j under the documented order."""
    coefs = numpy.asarray(coefs)
    order = sorted(range(len(mons)), key=lambda m: M.order_key(mons[m], graded, reverse),
                   reverse=True)
    ordered = coefs[:, order]
    diff = ordered[:, None, :] - ordered[None, :, :]
    nonzero = diff != 0
    first = numpy.argmax(nonzero, axis=2)
    picked = numpy.take_along_axis(diff, first[:, :, None], axis=2)[:, :, 0]
    return numpy.sign(picked).astype(int)


def build_universe(names, mons, coefs, kind):
    import numpoly

    coefs = numpy.asarray(coefs, dtype={"int": "int64", "float": "float64"}.get(kind, kind))
    return numpoly.polynomial_from_attributes(
        exponents=numpy.array(mons, dtype=int),
        coefficients=[numpy.ascontiguousarray(coefs[:, m]) for m in range(len(mons))],
        names=tuple(names), retain_names=True,
    ), coefs


def run_universe(spec, ctx):
    import numpoly

    names, mons, coefs, kind = universes(spec["tier"], spec["seed"])[spec["universe"]]
    graded, reverse = spec["graded"], spec["reverse"]
    case = {"kind": "universe", "universe": spec["universe"], "graded": graded, "reverse": reverse,
            "size": len(coefs), "monomials": mons, "names": names}
    if not ctx.begin(case):
        return
    ctx.sample({**case, "first_elements": coefs[:3]})
    facts = {"op": "compare", "universe": spec["universe"], "sort_graded": graded,
             "sort_reverse": reverse}
    poly, cmat = build_universe(names, mons, coefs, kind)
    n = len(coefs)
    sign = model_sign(cmat.astype("int64") if cmat.dtype.kind == "u" else cmat, mons, graded, reverse)
    want = {"lt": sign < 0, "le": sign <= 0, "gt": sign > 0, "ge": sign >= 0, "eq": sign == 0,
            "ne": sign != 0}
    left, right = poly[:, numpy.newaxis], poly[numpy.newaxis, :]
    if cmat.dtype.kind == "u":
        # keep the unsigned dtype: operands of the full broadcast shape (broadcasting inside the
        # library is allowed to promote)
        left = numpoly.polynomial_from_attributes(
            numpy.array(mons, dtype=int), [numpy.ascontiguousarray(numpy.repeat(cmat[:, None, m], n, axis=1))
                                           for m in range(len(mons))], names=tuple(names), retain_names=True)
        right = numpoly.polynomial_from_attributes(
            numpy.array(mons, dtype=int), [numpy.ascontiguousarray(numpy.repeat(cmat[None, :, m], n, axis=0))
                                           for m in range(len(mons))], names=tuple(names), retain_names=True)
    defaults = numpoly.get_options()
    try:
        for spelling in ("operator", "numpy"):
            rel = {}
            with numpoly.global_options(sort_graded=graded, sort_reverse=reverse):
                for key, pyop, npname in OPS:
                    try:
                        if spelling == "operator":
                            res = pyop(left, right)
                        else:
                            res = getattr(numpy, npname)(left, right)
                    except Exception as err:  # pylint: disable=broad-except
                        O.report_exception(ctx, dict(facts, rel=key, spelling=spelling), err, case,
                                           what=f"{key}/{spelling}")
                        return
                    res = numpy.asarray(res)
                    if res.shape != (n, n) or res.dtype != bool:
                        ctx.violation(dict(facts, rel=key, spelling=spelling, failure="shape"),
                                      f"{key}/{spelling}: shape {res.shape} dtype {res.dtype}", case)
                        return
                    rel[key] = res
            ctx.evaluations += 6 * n * n
            ctx.count("pairs_compared", 6 * n * n)
            same_degree = sum(1 for a in range(len(mons)) for b in range(a + 1, len(mons))
                              if sum(mons[a]) == sum(mons[b]))
            ctx.evaluated((spec["universe"], graded, reverse, spelling), same_degree > 0, n=0)

            def bad(name, mask, text):
                idx = numpy.argwhere(mask)
                i, j = (int(x) for x in idx[0])
                ctx.violation(
                    dict(facts, spelling=spelling, failure=name),
                    f"{text}: {int(mask.sum())} pairs, e.g. a={M.MP.from_rows(names, mons, coefs[i])} "
                    f"b={M.MP.from_rows(names, mons, coefs[j])} "
                    f"(lt={rel['lt'][i, j]} eq={rel['eq'][i, j]} gt={rel['gt'][i, j]} "
                    f"le={rel['le'][i, j]} ge={rel['ge'][i, j]} ne={rel['ne'][i, j]}; model sign "
                    f"{sign[i, j]})", case)

            tri = rel["lt"].astype(int) + rel["eq"].astype(int) + rel["gt"].astype(int)
            if (tri != 1).any():
                bad("trichotomy", tri != 1, "not exactly one of a<b, a==b, a>b")
                return
            for key, comp in (("le", "gt"), ("ge", "lt"), ("ne", "eq")):
                mask = rel[key] != ~rel[comp]
                if mask.any():
                    bad("complement", mask, f"{key} is not the complement of {comp}")
                    return
            mask = rel["eq"] != numpy.eye(n, dtype=bool)
            if mask.any():
                bad("equality", mask, "== differs from identity of polynomials")
                return
            mask = rel["lt"] != rel["gt"].T
            if mask.any():
                bad("antisymmetry", mask, "a<b does not equal b>a")
                return
            ltf = rel["lt"].astype(numpy.float32)
            comp = (ltf @ ltf) > 0
            mask = comp & ~rel["lt"]
            ctx.count("triples_checked", n * n * n)
            if mask.any():
                bad("transitivity", mask, "a<c and c<b for some c but not a<b")
                return
            for key in ("lt", "gt", "eq", "le", "ge", "ne"):
                mask = rel[key] != want[key]
                if mask.any():
                    bad("documented_order", mask, f"{key} disagrees with the documented order")
                    return
        # maximum / minimum on a block
        block = min(n, 120)
        rng = random.Random(spec["seed"] + 99)
        rows = sorted(rng.sample(range(n), block))
        sub, _ = build_universe(names, mons, [coefs[i] for i in rows], kind)
        csub = numpy.asarray([coefs[i] for i in rows])
        ssub = sign[numpy.ix_(rows, rows)]
        with numpoly.global_options(sort_graded=graded, sort_reverse=reverse):
            for fname, pick_left in (("maximum", ssub >= 0), ("minimum", ssub <= 0)):
                for ns, spelling in ((numpoly, "numpoly"), (numpy, "numpy")):
                    try:
                        res = getattr(ns, fname)(sub[:, numpy.newaxis], sub[numpy.newaxis, :])
                    except Exception as err:  # pylint: disable=broad-except
                        O.report_exception(ctx, dict(facts, rel=fname, spelling=spelling), err, case)
                        return
                    ctx.evaluations += block * block
                    ctx.count("maxmin_pairs", block * block)
                    lookup = {tuple(int(e) for e in row): c
                              for row, c in zip(res.exponents, res.coefficients)}
                    if tuple(res.names) != tuple(names):
                        lookup = {}
                        for row, c in zip(res.exponents, res.coefficients):
                            d = dict(zip(res.names, (int(e) for e in row)))
                            lookup[tuple(d.get(nm, 0) for nm in names)] = c
                    for m, mono in enumerate(mons):
                        got = lookup.get(tuple(mono))
                        if got is None:
                            got = numpy.zeros((block, block), dtype=csub.dtype)
                        expect = numpy.where(pick_left, csub[:, None, m], csub[None, :, m])
                        if numpy.shape(got) != expect.shape or (numpy.asarray(got) != expect).any():
                            ctx.violation(dict(facts, rel=fname, spelling=spelling, failure="value"),
                                          f"{fname}/{spelling} does not return the "
                                          f"{'larger' if fname == 'maximum' else 'smaller'} operand "
                                          f"(coefficient of monomial {mono})", case)
                            return
    finally:
        numpoly.set_options(**defaults)
        ctx.end()


def gen_random(g):
    rng = g.rng
    pools = [["q0", "q1"], ["q0", "q1", "q2"], ["q1", "q10"], ["q0"], ["q2", "q10"], ["q2"], ["q10"],
             ["q1", "q2", "q10"]]
    names = rng.choice(pools)
    degree = rng.choice([1, 2, 3, 4])
    kind = rng.choice(["int", "int", "float"])
    base = g.shape(2)

    def make(shape, names=names):
        rows = [r for r in itertools.product(range(degree + 1), repeat=len(names))
                if sum(r) <= degree]
        nrows = rng.randint(1, min(len(rows), 8))
        chosen = rng.sample(rows, nrows)
        coefs = [g.array_data(shape, kind, zero_prob=0.35) for _ in chosen]
        return {"k": "poly", "names": names, "exps": [list(r) for r in chosen],
                "coefs": G.nested_map(G.jnum, coefs), "kind": kind, "shape": list(shape),
                "via": rng.choice(["attrs", "retain"])}

    a = make(base)
    roll = rng.random()
    if roll < 0.15:
        b = g.const_operand(shape=g.compatible_shape(base), kind=kind)
    elif roll < 0.3:
        b = dict(a)  # equal polynomials
    elif roll < 0.4:
        # differs from a in a single same-degree term
        b = {**a, "coefs": [c for c in a["coefs"]]}
        k = rng.randrange(len(b["coefs"]))
        b["coefs"][k] = G.nested_map(G.jnum, g.array_data(base, kind, zero_prob=0.2))
    elif roll < 0.5 and kind == "float":
        # ... by a hair: the order is exact, never "equal up to a tolerance"
        b = {**a, "coefs": [c for c in a["coefs"]]}
        k = rng.randrange(len(b["coefs"]))
        eps = rng.choice([2.0 ** -40, -2.0 ** -40, 1e-9, 1e-12, -1e-10])
        b["coefs"][k] = G.nested_map(lambda v: v + eps if not isinstance(v, dict) else v,
                                     a["coefs"][k])
    elif roll < 0.75:
        b = make(g.compatible_shape(base))
    else:
        # the operands mention different indeterminates (the union is ordered by index: q2 < q10)
        b = make(g.compatible_shape(base), rng.choice([p for p in pools if p != names]))
    if rng.random() < 0.3:
        a, b = b, a
    case = {"kind": "random", "a": a, "b": b, "graded": rng.random() < 0.6,
            "reverse": rng.random() < 0.4, "spelling": rng.choice(["operator", "numpy", "numpoly"])}
    if a["k"] == "poly" and b["k"] == "poly" and rng.random() < 0.2:
        case["aligned_view"] = rng.choice(["T", "ravel", "reversed", "plain"])
    return case


def elem_sign(x, y, names, graded, reverse):
    diff = x - y
    if diff.is_zero():
        return 0
    _, lead = diff.lead(names, graded, reverse)
    return 1 if lead[0] > 0 else -1


def run_random_case(case, ctx):
    import numpoly

    a, b = G.build(case["a"]), G.build(case["b"])
    if not isinstance(a, numpoly.ndpoly) and not isinstance(b, numpoly.ndpoly):
        return
    am, bm = G.model(case["a"]), G.model(case["b"])
    try:
        shape = numpy.broadcast_shapes(am.shape, bm.shape)
    except ValueError:
        return
    view = case.get("aligned_view")
    if view and isinstance(a, numpoly.ndpoly) and isinstance(b, numpoly.ndpoly):
        # the operands were aligned beforehand and are compared as views of the aligned arrays
        a, b = numpoly.align_polynomials(a, b)
        am, bm = numpy.broadcast_to(am, shape), numpy.broadcast_to(bm, shape)
        if view == "T":
            a, b, am, bm = a.T, b.T, am.T, bm.T
        elif view == "ravel":
            a, b, am, bm = a.ravel(), b.ravel(), am.ravel(), bm.ravel()
        elif view == "reversed" and len(shape):
            a, b, am, bm = a[::-1], b[::-1], am[::-1], bm[::-1]
        shape = tuple(am.shape)
        ctx.count("aligned_view_cases")
    graded, reverse = case["graded"], case["reverse"]
    names = sorted(M.all_names(am) | M.all_names(bm), key=M.numsuffix) or ["q0"]
    ab, bb = numpy.broadcast_to(am, shape), numpy.broadcast_to(bm, shape)
    sign = numpy.empty(shape, dtype=int)
    same_degree = False
    for idx in numpy.ndindex(*shape):
        sign[idx] = elem_sign(ab[idx], bb[idx], names, graded, reverse)
        d = ab[idx] - bb[idx]
        degs = [sum(e for _, e in m) for m in d.t]
        same_degree = same_degree or len(degs) != len(set(degs))
    want = {"lt": sign < 0, "le": sign <= 0, "gt": sign > 0, "ge": sign >= 0, "eq": sign == 0,
            "ne": sign != 0}
    facts = {"op": "compare", "universe": "random", "sort_graded": graded, "sort_reverse": reverse,
             "spelling": case["spelling"]}
    ctx.count("random_pairs", int(numpy.prod(shape, dtype=int)))
    ctx.evaluated(("random", graded, reverse, case["spelling"], tuple(shape),
                   G.spec_features(case["a"])["kind"], G.spec_features(case["b"])["kind"]),
                  same_degree, n=int(numpy.prod(shape, dtype=int)))
    defaults = numpoly.get_options()
    try:
        with numpoly.global_options(sort_graded=graded, sort_reverse=reverse):
            for key, pyop, npname in OPS:
                try:
                    if case["spelling"] == "operator":
                        res = pyop(a, b)
                    elif case["spelling"] == "numpy":
                        res = getattr(numpy, npname)(a, b)
                    else:
                        res = getattr(numpoly, npname)(a, b)
                except Exception as err:  # pylint: disable=broad-except
                    O.report_exception(ctx, dict(facts, rel=key), err, case, what=key)
                    return
                res = numpy.asarray(res)
                if res.shape != tuple(shape) or (res != want[key]).any():
                    ctx.violation(dict(facts, rel=key, failure="documented_order"),
                                  f"{key}: got {res.tolist()} expected {want[key].tolist()}\n"
                                  f"  a={M.describe(am, 300)}\n  b={M.describe(bm, 300)}", case)
                    return
            for fname, pick in (("maximum", sign >= 0), ("minimum", sign <= 0)):
                try:
                    res = getattr(numpoly if case["spelling"] != "numpy" else numpy, fname)(a, b)
                except Exception as err:  # pylint: disable=broad-except
                    O.report_exception(ctx, dict(facts, rel=fname), err, case, what=fname)
                    return
                expect = numpy.empty(shape, dtype=object)
                for idx in numpy.ndindex(*shape):
                    expect[idx] = ab[idx] if pick[idx] else bb[idx]
                problem = O.mismatch(res, expect)
                if problem is not None:
                    ctx.violation(dict(facts, rel=fname, failure=problem[0]),
                                  f"{fname}: {problem[1]}\n  a={M.describe(am, 300)}\n"
                                  f"  b={M.describe(bm, 300)}", case)
                    return
    finally:
        numpoly.set_options(**defaults)


def run(spec, ctx):
    if "replay_case" in spec:
        case = spec["replay_case"]
        if case.get("kind") == "universe":
            spec = dict(spec, kind="universe", universe=case["universe"], graded=case["graded"],
                        reverse=case["reverse"])
            spec.pop("replay_case")
            run_universe(spec, ctx)
        else:
            ctx.run_case(case, lambda c: run_random_case(c, ctx))
        return
    if spec["kind"] == "universe":
        run_universe(spec, ctx)
        return
    g = G.Gen(spec["seed"] * 1000003 + spec["part"] * 7919 + 7)
    for i in range(spec["n"]):
        case = gen_random(g)
        if i < 1 and spec["part"] == 0:
            ctx.sample(case)
        ctx.run_case(case, lambda c: run_random_case(c, ctx))
