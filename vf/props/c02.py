"""C02: evaluation and substitution compute the polynomial's value."""
from __future__ import annotations

import numpy

from vf import gen as G
from vf import model as M
from vf import oracle as O
from vf.harness import exc_fact, tb_short

META = {
    "level": "exploration",
    "rule": (
        "seeded polynomial arrays (C01 operand classes) x argument assignments: full / partial, "
        "positional / keyword / None placeholders; Python ints (negative, > 2**16), bools, floats, "
        "complex, numpy scalars of every integer/float width, array arguments of shapes ()..(2,1,3) "
        "broadcasting among themselves, polynomial arguments incl. the swap q0<->q1; unknown and "
        "doubly supplied names must raise TypeError; metamorphic riders: staged evaluation and "
        "type-carrier independence (-1, int64(-1), -1.0). Expected value = exact substitution in "
        "the model; signature = (poly class, assignment pattern, argument kinds/shapes); "
        "non-trivial when the polynomial has >= 2 terms and some argument is not a small positive int"
    ),
    "assumptions": [
        "exactness is demanded only when every partial power and the value fit in int64 "
        "(Python ints) or in the argument's own dtype (fixed-width numpy scalars)",
        "float/complex evaluations are compared with relative tolerance 1e-9 plus 1e-14 x (number of terms) x (bound on the sum of |term| values): cancellation between large terms keeps their rounding",
    ],
    "min_evaluations": {"quick": 8000, "thorough": 150000},
}

INT_DTYPES = ["int8", "int16", "int32", "int64", "uint8", "uint16", "uint32", "uint64"]
FLOAT_DTYPES = ["float16", "float32", "float64"]


def shards(tier, seed):
    n = 8 if tier == "quick" else 16
    per = 1000 if tier == "quick" else 10000
    return [{"part": i, "n": per} for i in range(n)]


def facts_of_case(case):
    return {"op": "call"}


def gen_value(g, base_shapes):
    """One argument value spec + its class label."""
    rng = g.rng
    roll = rng.random()
    if roll < 0.22:
        val = rng.choice([0, 1, 2, 3, -1, -2, -3, 7, 12, 20])
        return {"k": "py", "v": val}, "pyint"
    if roll < 0.28:
        val = rng.choice([65537, 70000, -70000, 100003, 2 ** 20])
        return {"k": "py", "v": val}, "pybig"
    if roll < 0.32:
        return {"k": "py", "v": rng.choice([True, False])}, "bool"
    if roll < 0.40:
        return {"k": "py", "v": rng.choice([0.5, -1.0, 2.0, -2.5, 1.25, -1.0])}, "pyfloat"
    if roll < 0.45:
        return {"k": "py", "v": G.jnum(complex(rng.choice([0, 1, -1, 0.5]),
                                               rng.choice([1, -1, 2])))}, "pycomplex"
    if roll < 0.58:
        dtype = rng.choice(INT_DTYPES)
        val = rng.choice([0, 1, 2, 3, 5]) if dtype.startswith("u") else rng.choice([0, 1, 2, -1, -2, 3])
        if rng.random() < 0.3:
            # each value fits its narrow type with room to spare, products of two of them do not
            val = rng.choice([12, 20, 100])
        return {"k": "np", "v": val, "dtype": dtype}, "np:" + dtype
    if roll < 0.64:
        dtype = rng.choice(FLOAT_DTYPES)
        return {"k": "np", "v": rng.choice([0.5, -1.0, 2.0, 1.5]), "dtype": dtype}, "np:" + dtype
    if roll < 0.86:
        shape = rng.choice(base_shapes)
        kind = rng.choice(["int", "int", "float", "complex"])
        data = g.array_data(shape, kind, zero_prob=0.15)
        form = rng.choice(["arr", "arr", "list"]) if shape else "arr"
        if form == "list":
            return {"k": "list", "data": G.nested_map(G.jnum, data)}, f"list{tuple(shape)}"
        dtype = G.DTYPE_OF_KIND[kind]
        layout = rng.choice(["C", "C", "F", "readonly", "strided"])
        return ({"k": "arr", "data": G.nested_map(G.jnum, data), "dtype": dtype,
                 "shape": list(shape), "layout": layout}, f"arr{tuple(shape)}:{kind}")
    # polynomial-valued argument
    names = rng.choice([["q0"], ["q1"], ["q0", "q1"], ["q2"], ["q1", "q2"]])
    shape = rng.choice([(), (), (), rng.choice(base_shapes)])
    if rng.random() < 0.4:
        name = rng.choice(names)
        spec = {"k": "poly", "names": [name], "exps": [[1]], "coefs": [1 if not shape else
                G.nested_map(lambda v: 1, g.array_data(shape, "int"))], "kind": "int",
                "shape": list(shape), "via": "attrs"}
        return spec, "var"
    return g.poly(shape=shape, names=names, kind="int", nterms=rng.choice([1, 2, 2]), maxexp=2,
                  allow_views=False), f"poly{tuple(shape)}"


def gen_case(g):
    rng = g.rng
    poly = g.poly(maxexp=rng.choice([2, 3, 4]), kind=rng.choice(["int", "int", "int", "float", "complex"]))
    if rng.random() < 0.05:
        # the simplest polynomial there is: a bare indeterminate (as numpoly.variable() returns it)
        poly = {"k": "poly", "names": [rng.choice(["q0", "q1", "q3"])], "exps": [[1]], "coefs": [1],
                "kind": "int", "shape": [], "via": "attrs"}
    names = poly["names"]
    fam = rng.choice([[(), (3,), (1, 3), (2, 1, 3), (2, 1, 1), (1,), (1, 1)],
                      [(), (2,), (2, 2), (1, 2), (1,), (1, 1)], [()],
                      # single values that nevertheless carry axes
                      [(), (1,), (1, 1), (1, 1, 1)]])
    mode = rng.choice(["full", "full", "full", "partial", "partial", "error", "swap"])
    if mode == "swap" and len(names) >= 2:
        # every indeterminate replaced by another one (q0 <-> q1, cyclic shifts)
        perm = names[1:] + names[:1] if rng.random() < 0.5 else names[::-1]
        kwargs = {name: {"k": "poly", "names": [other], "exps": [[1]], "coefs": [1], "kind": "int",
                         "shape": [], "via": "attrs"} for name, other in zip(names, perm)}
        return {"poly": poly, "args": [], "kwargs": kwargs, "labels": ["kw:swap"] * len(names),
                "error": None, "spelling": rng.choice(["call", "numpoly.call"])}
    if mode == "swap":
        mode = "full"
    args, kwargs, labels = [], {}, []
    assigned = []
    for name in names:
        if mode == "partial" and rng.random() < 0.5:
            assigned.append(False)
        else:
            assigned.append(True)
    if mode == "partial" and all(assigned):
        assigned[rng.randrange(len(assigned))] = False
    npos = rng.randint(0, len(names))
    for i, name in enumerate(names):
        value, label = (gen_value(g, fam) if assigned[i] else (None, "none"))
        if i < npos:
            args.append(value)
            labels.append("pos:" + label)
        elif value is not None:
            kwargs[name] = value
            labels.append("kw:" + label)
    while args and args[-1] is None and rng.random() < 0.5:
        args.pop()
    error = None
    if mode == "error":
        if rng.random() < 0.5 or not args or args[0] is None:
            kwargs[rng.choice(["q7", "x", "q11", "q00"])] = {"k": "py", "v": 1}
            error = "unknown"
        else:
            kwargs[names[0]] = {"k": "py", "v": 2}
            error = "double"
    case = {"poly": poly, "args": args, "kwargs": kwargs, "labels": labels, "error": error,
            "spelling": rng.choice(["call", "call", "numpoly.call"])}
    if error is None and rng.random() < 0.15:
        case["call_options"] = rng.choice([{"retain_names": False}, {"retain_names": False},
                                           {"retain_coefficients": True},
                                           {"retain_names": False, "retain_coefficients": True}])
    return case


def value_model(spec):
    return G.model(spec)


def exactness(poly_spec, params, param_specs):
    """(exact: bool, representable: bool) for this evaluation."""
    exact = poly_spec["kind"] == "int"
    limit = 2.0 ** 62
    for name, spec in param_specs.items():
        if spec is None:
            continue
        if spec["k"] == "py":
            val = G.unj(spec["v"])
            if isinstance(val, (float, complex)) and not isinstance(val, bool):
                exact = False
        elif spec["k"] == "np":
            if not numpy.issubdtype(numpy.dtype(spec["dtype"]), numpy.integer):
                exact = False
            if spec["dtype"] == "uint64":
                # numpy promotes uint64 with int64 to float64: rounding above 2**53
                # is numpy's own promotion rule, not the library's arithmetic
                exact = False
        elif spec["k"] in ("arr",):
            if spec["dtype"] not in ("int64", "bool"):
                exact = False
        elif spec["k"] == "list":
            flat = numpy.array(G.unj_nested(spec["data"]))
            if flat.dtype.kind not in "iub":
                exact = False
        elif spec["k"] == "poly" and spec["kind"] != "int":
            exact = False
    # representability: bound sum |coef| prod |arg|^e, and each power in its own dtype
    ok = True
    maxdeg = {}
    for row in poly_spec["exps"]:
        for name, e in zip(poly_spec["names"], row):
            maxdeg[name] = max(maxdeg.get(name, 0), e)
    bound = {}
    for name, spec in param_specs.items():
        if spec is None:
            bound[name] = 1.0
            continue
        arr = params[name]
        mag = max((x.max_abs() for x in arr.ravel().tolist()), default=0.0)
        nterms = max((x.nterms() for x in arr.ravel().tolist()), default=1)
        bound[name] = max(mag, 1.0) * max(nterms, 1)
        if spec["k"] == "np" and numpy.issubdtype(numpy.dtype(spec["dtype"]), numpy.integer):
            info = numpy.iinfo(spec["dtype"])
            if mag ** max(maxdeg.get(name, 0), 1) > info.max:
                ok = False
        if spec["k"] == "np" and spec["dtype"] == "float16":
            if mag ** max(maxdeg.get(name, 0), 1) > 1000:
                ok = False
    total = 0.0
    coefs = [numpy.abs(numpy.array(G.unj_nested(c), dtype=complex)).max() if numpy.size(c) else 0
             for c in poly_spec["coefs"]]
    for row, cmax in zip(poly_spec["exps"], coefs):
        term = float(cmax) if cmax else 0.0
        for name, e in zip(poly_spec["names"], row):
            term *= bound.get(name, 1.0) ** e
        total += term
    if total > limit:
        ok = False
    return exact, ok, total


def expected_value(pmodel, names, params):
    shapes = [params[n].shape for n in names]
    common = numpy.broadcast_shapes(*shapes) if shapes else ()
    bparams = {n: numpy.broadcast_to(params[n], common) for n in names}
    out = numpy.empty(tuple(pmodel.shape) + tuple(common), dtype=object)
    for pidx in numpy.ndindex(*pmodel.shape):
        for sidx in numpy.ndindex(*common):
            out[pidx + sidx] = pmodel[pidx].subs({n: bparams[n][sidx] for n in names})
    return out


def do_call(poly, args, kwargs, spelling, options=None):
    import numpoly

    if options:
        defaults = numpoly.get_options()
        try:
            with numpoly.global_options(**options):
                return do_call(poly, args, kwargs, spelling)
        finally:
            numpoly.set_options(**defaults)
    if spelling == "numpoly.call":
        return numpoly.call(poly, tuple(args), kwargs)
    return poly(*args, **kwargs)


def run_case(case, ctx):
    import numpoly

    pspec = case["poly"]
    poly = G.build(pspec)
    pmodel = G.model(pspec)
    names = list(pspec["names"])
    args = [None if a is None else G.build(a) for a in case["args"]]
    kwargs = {k: G.build(v) for k, v in case["kwargs"].items()}
    labels = tuple(case["labels"])
    facts = {"op": "call", "spelling": case["spelling"], "labels": "|".join(sorted(set(
        l.split(":", 1)[1].split("(")[0] for l in labels)))}
    nterms = len(pspec["exps"])
    sig = (tuple(pspec["shape"]), min(nterms, 3), len(names), pspec["kind"], labels, case["error"])
    nontrivial = nterms >= 2 and any(not l.endswith("pyint") and not l.endswith("none")
                                     for l in labels)

    if case["error"]:
        ctx.evaluated(sig, True)
        ctx.count("error_cases")
        try:
            got = do_call(poly, args, kwargs, case["spelling"])
        except TypeError:
            return
        except Exception as err:  # pylint: disable=broad-except
            facts["failure"] = exc_fact(err)
            facts["expected"] = "TypeError:" + case["error"]
            ctx.violation(facts, f"{case['error']} name: expected TypeError, got "
                                 f"{type(err).__name__}: {err}", case)
            return
        facts["failure"] = "accepted"
        facts["expected"] = "TypeError:" + case["error"]
        ctx.violation(facts, f"{case['error']} name accepted silently; returned {got!r:.200}", case)
        return

    # model parameters
    param_specs = {n: None for n in names}
    for i, a in enumerate(case["args"]):
        if a is not None:
            param_specs[names[i]] = a
    for k, v in case["kwargs"].items():
        param_specs[k] = v
    params = {}
    for n in names:
        spec = param_specs[n]
        params[n] = M.wrap(M.MP.var(n)) if spec is None else value_model(spec)
    try:
        numpy.broadcast_shapes(*[params[n].shape for n in names])
    except ValueError:
        ctx.count("skipped_unbroadcastable")
        return
    exact, representable, magnitude = exactness(pspec, params, param_specs)
    # floating-point evaluation: terms of size `magnitude` may cancel; the rounding of each of them
    # (a few ulp of its own size) stays in the result however small the sum is
    atol = 0.0 if exact else 1e-14 * magnitude * max(len(pspec["exps"]), 1)
    if not representable:
        ctx.count("skipped_not_representable")
        return
    expected = expected_value(pmodel, names, params)
    full_numeric = all(spec is not None and spec["k"] != "poly" for spec in param_specs.values())
    ctx.evaluated(sig, nontrivial)
    ctx.count("full_numeric" if full_numeric else "substitution")
    call_options = case.get("call_options")
    if call_options:
        # evaluation itself is not an "ordering-based" function: the retain settings in force at
        # call time change neither which names a polynomial has nor its values
        ctx.count("calls_under_options")
        facts["call_options"] = ",".join(f"{k}={v}" for k, v in sorted(call_options.items()))
    got, err = O.call_guard(do_call, poly, args, kwargs, case["spelling"], call_options)
    if err is not None:
        O.report_exception(ctx, facts, err, case, what="call")
        return
    rtol = None if exact else 1e-9
    if full_numeric and isinstance(got, numpoly.ndpoly):
        facts["failure"] = "type"
        ctx.violation(facts, f"full numeric evaluation returned a polynomial: {got!r:.200}", case)
        return
    problem = O.mismatch(got, expected, rtol=rtol, atol=atol)
    if problem is not None:
        facts["failure"] = problem[0]
        ctx.violation(facts, f"call: {problem[1]}\n  poly={M.describe(pmodel, 300)}\n  "
                             f"params={ {n: M.describe(params[n], 120) for n in names} }", case)
        return
    if not full_numeric and isinstance(got, numpoly.ndpoly) and not call_options:
        missing = M.all_names(expected) - set(got.names)
        if missing:
            facts["failure"] = "names"
            ctx.violation(facts, f"substituted polynomial lacks names {missing}", case)
            return

    # the function spelling must not use its kwargs dict as scratch space: a second
    # call with the very same objects gives the same result
    if case["spelling"] == "numpoly.call":
        ctx.count("repeat_calls")
        again, err2 = O.call_guard(numpoly.call, poly, tuple(args), kwargs)
        ctx.evaluated(("repeat",) + sig, nontrivial)
        if err2 is not None:
            O.report_exception(ctx, dict(facts, rider="repeat"), err2, case,
                               what="second numpoly.call with the same args/kwargs objects")
            return
        problem = O.mismatch(again, expected, rtol=rtol, atol=atol)
        if problem is not None:
            ctx.violation(dict(facts, rider="repeat", failure="repeat:" + problem[0]),
                          f"second numpoly.call with the same kwargs dict differs: {problem[1]}", case)
            return

    # metamorphic riders on the same execution -------------------------------
    assigned = [n for n in names if param_specs[n] is not None]
    if len(assigned) >= 2 and full_numeric:
        ctx.count("staged")
        first, rest = assigned[0], assigned[1:]
        real = {n: G.build(param_specs[n]) for n in assigned}
        # staging changes the axis order (first argument's axes come first), so
        # only stage when at most one argument is non-scalar
        nonscalar = [n for n in assigned if params[n].shape != ()]
        if len(nonscalar) <= 1 and (not nonscalar or nonscalar[0] in rest):
            try:
                staged = poly(**{first: real[first]})
                if isinstance(staged, numpoly.ndpoly):
                    staged = staged(**{n: real[n] for n in rest})
                    sprob = O.mismatch(staged, expected, rtol=rtol, atol=atol)
                else:
                    # already constant after the first stage: the shapes of
                    # the remaining arguments can no longer enter
                    sprob = None
            except Exception as serr:  # pylint: disable=broad-except
                sprob = ("exception:" + type(serr).__name__, f"{serr}\n{tb_short(serr)}")
            ctx.evaluated(("staged",) + sig, nontrivial)
            if sprob is not None:
                f2 = dict(facts, failure=sprob[0] if sprob[0].startswith("exception") else "staged:" + sprob[0],
                          rider="staged")
                ctx.violation(f2, f"staged evaluation p({first})(rest) differs: {sprob[1]}", case)
    if full_numeric and exact:
        # type-carrier independence for scalar integer arguments
        carriers = {}
        for n in assigned:
            spec = param_specs[n]
            if spec["k"] == "py" and isinstance(spec["v"], int) and not isinstance(spec["v"], bool) \
                    and abs(spec["v"]) < 1000:
                carriers[n] = spec["v"]
        if carriers:
            ctx.count("carrier")
            base = {n: G.build(param_specs[n]) for n in assigned}
            maxdeg = {n: max([row[i] for row in pspec["exps"]] + [1])
                      for i, n in enumerate(pspec["names"])}
            narrow = []
            for dtype in ("int16", "uint8", "int8", "uint16"):
                info = numpy.iinfo(dtype)
                # every power of every carried value fits the type itself: what remains is the
                # product across different arguments, which is formed in int64 / float64
                if all(info.min <= v and abs(v) ** maxdeg.get(n, 1) <= info.max
                       for n, v in carriers.items()):
                    narrow.append((numpy.dtype(dtype).type, dtype))
            for conv, label in [(numpy.int64, "int64"), (float, "float"), (numpy.int32, "int32"),
                                (numpy.float64, "float64")] + narrow:
                alt = dict(base)
                for n, v in carriers.items():
                    alt[n] = conv(v)
                try:
                    res = poly(**alt)
                    cprob = O.mismatch(res, expected, rtol=1e-9, atol=atol)
                except Exception as cerr:  # pylint: disable=broad-except
                    cprob = ("exception:" + type(cerr).__name__, str(cerr))
                ctx.evaluated(("carrier", label) + sig, nontrivial)
                if cprob is not None:
                    f2 = dict(facts, failure=cprob[0] if cprob[0].startswith("exception") else "carrier:" + cprob[0],
                              rider="carrier:" + label)
                    ctx.violation(f2, f"same integers carried as {label} give a different value: "
                                      f"{cprob[1]}", case)
    if full_numeric:
        # what an evaluation returns is a new array of the caller's: overwriting it changes neither
        # the arguments nor what the next evaluation returns
        arg_objects = [v for v in list(args) + list(kwargs.values()) if isinstance(v, numpy.ndarray)]
        arg_copies = [v.copy() for v in arg_objects]
        res1 = do_call(poly, args, kwargs, case["spelling"])
        if isinstance(res1, numpy.ndarray) and res1.size and res1.flags.writeable and \
                res1.dtype.kind in "iufc":
            ctx.count("results_overwritten")
            res1[...] = 77
            changed_args = [i for i, (v, c) in enumerate(zip(arg_objects, arg_copies))
                            if not numpy.array_equal(v, c)]
            res2 = do_call(poly, args, kwargs, case["spelling"])
            aprob = O.mismatch(res2, expected, rtol=rtol, atol=atol)
            if changed_args or aprob is not None:
                ctx.violation(dict(facts, rider="overwrite_result", failure="aliased_result"),
                              f"after writing into the array an evaluation returned: argument arrays "
                              f"changed {changed_args}; next evaluation "
                              f"{aprob[1] if aprob else 'unchanged'}", case)
                return
    if full_numeric and pspec["kind"] in ("int", "float") and not pspec.get("dtype"):
        # the polynomial is changed in place (every coefficient doubled through the raw view)
        # after it was evaluated: the next evaluation sees the new coefficients
        try:
            raw = poly.values
            if raw.flags.writeable:
                for key in raw.dtype.names:
                    raw[key] *= 2
                ctx.count("evaluated_after_update")
                again = do_call(poly, args, kwargs, case["spelling"])
                doubled = M.m_map(lambda e: e * M.MP.const(2), expected)
                uprob = O.mismatch(again, doubled, rtol=rtol, atol=2 * atol)
                ctx.evaluated(("after_update",) + sig, nontrivial)
                if uprob is not None:
                    ctx.violation(dict(facts, rider="after_update", failure="stale:" + uprob[0]),
                                  f"after doubling the coefficients in place the same call gives "
                                  f"{uprob[1]}", case)
        except Exception as uerr:  # pylint: disable=broad-except
            O.report_exception(ctx, dict(facts, rider="after_update"), uerr, case,
                               what="evaluation after an in-place update")


def run(spec, ctx):
    if "replay_case" in spec:
        ctx.run_case(spec["replay_case"], lambda c: run_case(c, ctx))
        return
    g = G.Gen(spec["seed"] * 1000003 + spec["part"] * 7919 + 2)
    if spec["part"] == 0:
        # fixed cases for the carrier rider: every single power fits an 8 / 16 bit type, the
        # product across the arguments does not
        for names, values in ((["q0", "q1"], [20, 20]), (["q0", "q1"], [12, 12]),
                              (["q1", "q2"], [100, 3]), (["q0", "q1", "q2"], [15, 15, 2])):
            poly = {"k": "poly", "names": names, "exps": [[1] * len(names), [0] * len(names)],
                    "coefs": [3, 1], "kind": "int", "shape": [], "via": "attrs"}
            for spelling in ("call", "numpoly.call"):
                case = {"poly": poly, "args": [{"k": "py", "v": v} for v in values], "kwargs": {},
                        "labels": ["pos:pyint"] * len(names), "error": None, "spelling": spelling}
                ctx.run_case(case, lambda c: run_case(c, ctx))
    for i in range(spec["n"]):
        case = gen_case(g)
        if i < 2 and spec["part"] == 0:
            ctx.sample(case)
        ctx.run_case(case, lambda c: run_case(c, ctx))
