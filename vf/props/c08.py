"""C08: numpy, numpoly and operator spellings agree; unsupported numpy calls raise."""
from __future__ import annotations

import operator
import warnings

import numpy

from vf import catalogue as C
from vf import catrun
from vf import gen as G
from vf import model as M
from vf import oracle as O
from vf.harness import exc_fact, tb_short

META = {
    "level": "exploration",
    "rule": (
        "positive half: every catalogue entry (covering the registered functions; registry read at "
        "run time, entries without argument generator listed as unmodelled) with seeded valid "
        "arguments is executed in all its spellings (numpoly.f / numpy.f / method) and the results "
        "are compared pairwise: type, shape, coefficient dtype, names, polynomial values, and "
        "raise-vs-return; operator table (+ - * ** // @ abs neg pos, six comparisons; / % divmod "
        "against poly_divide / poly_remainder / poly_divmod) and ufunc.reduce / accumulate through "
        "the mapped functions. negative half: every overridable function of numpy, numpy.linalg, "
        "numpy.fft and every public ufunc not in the registries, plus ufunc methods outer / at / "
        "reduceat and unmapped reduce / accumulate, is called with polynomial arguments from a "
        "template ladder; with the override protocol observed to be engaged (spy on "
        "__array_function__ / __array_ufunc__) the only accepted outcome is FeatureNotSupported. "
        "signature = (callable, spelling pair or template); non-trivial when the spellings are "
        "different function objects / the protocol was engaged"
    ),
    "assumptions": ["plain converters that never dispatch (numpy.array, asarray, ...) are outside "
                    "the claim", "functions no template engages are reported as unreached"],
    "min_evaluations": {"quick": 6000, "thorough": 100000},
    "required_counters": ["negative_functions_engaged", "negative_namesake_warmups", "negative_ufuncs", "ufunc_methods",
                          "spelling_pairs"],
}


def shards(tier, seed):
    n = 6 if tier == "quick" else 14
    per = 12 if tier == "quick" else 200
    out = [{"kind": "positive", "part": i, "per_op": per} for i in range(n)]
    out.append({"kind": "operators", "part": 0, "n": 600 if tier == "quick" else 8000})
    out.append({"kind": "negative", "part": 0})
    return out


def facts_of_case(case):
    return {"op": case.get("op", "?")}


def fingerprint(value, depth=0):
    import numpoly

    if isinstance(value, numpoly.ndpoly):
        return ("poly", tuple(value.shape), str(value.dtype), tuple(value.names), M.abstract(value))
    if isinstance(value, numpy.ndarray):
        if value.dtype.names is not None:
            return ("raw", str(value.dtype)[:60])
        return ("arr", tuple(value.shape), str(value.dtype), value.copy())
    if isinstance(value, numpy.flatiter):
        return ("seq", [fingerprint(v, depth + 1) for v in value])
    if isinstance(value, (list, tuple)) and depth < 5:
        return ("seq", [fingerprint(v, depth + 1) for v in value])
    if isinstance(value, (numpy.generic, int, float, complex, bool)):
        return ("arr", (), str(numpy.asarray(value).dtype), numpy.asarray(value))
    if isinstance(value, numpy.dtype):
        return ("dtype", str(value))
    if value is None:
        return ("none",)
    return ("other", type(value).__name__)


def compare(f0, f1, path="result"):
    if f0[0] != f1[0]:
        return f"{path}: type {f1[0]} vs {f0[0]}"
    kind = f0[0]
    if kind == "poly":
        if f0[1] != f1[1]:
            return f"{path}: shape {f1[1]} vs {f0[1]}"
        if f0[2] != f1[2]:
            return f"{path}: coefficient dtype {f1[2]} vs {f0[2]}"
        if f0[3] != f1[3]:
            return f"{path}: names {f1[3]} vs {f0[3]}"
        text = M.diff_arrays(f1[4], f0[4], rtol=1e-12)
        return f"{path}: values differ: {text}" if text else None
    if kind == "arr":
        if f0[1] != f1[1]:
            return f"{path}: shape {f1[1]} vs {f0[1]}"
        if f0[2] != f1[2]:
            return f"{path}: dtype {f1[2]} vs {f0[2]}"
        same = numpy.array_equal(f0[3], f1[3]) if f0[3].dtype.kind in "biu" else \
            numpy.allclose(f0[3], f1[3], rtol=1e-12, atol=0, equal_nan=True)
        return None if same else f"{path}: values {f1[3].tolist()!r:.150} vs {f0[3].tolist()!r:.150}"
    if kind == "seq":
        if len(f0[1]) != len(f1[1]):
            return f"{path}: {len(f1[1])} items vs {len(f0[1])}"
        for i, (x, y) in enumerate(zip(f0[1], f1[1])):
            text = compare(x, y, f"{path}[{i}]")
            if text:
                return text
        return None
    return None if f0 == f1 else f"{path}: {f1} vs {f0}"


def outcome(func):
    try:
        with warnings.catch_warnings():
            warnings.simplefilter("ignore")
            return ("ok", fingerprint(func()))
    except Exception as err:  # pylint: disable=broad-except
        return ("raised", type(err).__name__, str(err)[:200])


def run_positive_case(case, ctx):
    op = C.OPS[case["op"]]
    spellings = catrun.spellings_of(op)
    if len(spellings) < 2:
        return
    specs, kw = case["operands"], case["kw"]
    results = {}
    for spelling in spellings:
        real = [G.build(s) for s in specs]
        results[spelling] = outcome(lambda: catrun.execute(op, spelling, real, kw))
    base = results[spellings[0]]
    facts = catrun.case_facts(op, case, "|".join(spellings)) if specs else {"op": op.name}
    for other in spellings[1:]:
        ctx.evaluated((op.name, spellings[0], other, catrun.signature(op, case, other)[2:]), True)
        ctx.count("spelling_pairs")
        res = results[other]
        if base[0] != res[0]:
            facts2 = dict(facts, failure="raise_vs_return", pair=f"{spellings[0]}|{other}")
            ctx.violation(facts2, f"{op.name} kw={kw}: {spellings[0]} -> {base[:2] if base[0] == 'raised' else 'returned'}"
                                  f", {other} -> {res[1:] if res[0] == 'raised' else 'returned'}", case)
            return
        if base[0] == "raised":
            ctx.count("both_raised")
            continue
        text = compare(base[1], res[1])
        if text:
            kind = "dtype" if "dtype" in text else ("names" if "names" in text else
                                                     ("shape" if "shape" in text else
                                                      ("type" if "type" in text else "value")))
            ctx.violation(dict(facts, failure=kind, pair=f"{spellings[0]}|{other}"),
                          f"{op.name} kw={kw}: {other} differs from {spellings[0]}: {text}", case)
            return


def run_positive(spec, ctx):
    g = G.Gen(spec["seed"] * 1000003 + spec["part"] * 7919 + 8)
    cg = C.ConstGen(0)
    cg.rng = g.rng
    for i in range(spec["per_op"]):
        for name, op in C.OPS.items():
            gen = cg if op.group == "mirror" else g
            case = catrun.gen_case(gen, name)
            case.pop("spelling", None)
            if i == 0 and spec["part"] == 0 and name in ("sum", "concatenate"):
                ctx.sample(case)
            ctx.run_case(case, lambda c: run_positive_case(c, ctx))
    if spec["part"] == 0:
        unmodelled(ctx)


def unmodelled(ctx):
    import numpoly

    registered = {}
    for func in list(numpoly.FUNCTION_COLLECTION) + list(numpoly.UFUNC_COLLECTION):
        registered[getattr(func, "__name__", str(func))] = func
    known = {op.npname.split(".")[-1] for op in C.OPS.values()} | set(C.OPS)
    known |= {"true_divide", "divmod", "remainder", "array_repr", "array_str", "savetxt", "amax",
              "amin", "round", "max", "min", "matmul"}
    missing = sorted(set(registered) - known)
    ctx.count("registered_callables", len(registered))
    ctx.count("registered_without_generator", len(missing))
    if missing:
        ctx.note("registered functions without an argument generator (unmodelled): " +
                 ", ".join(missing))


# ---------------------------------------------------------------------------
BINOPS = [("add", operator.add), ("subtract", operator.sub), ("multiply", operator.mul),
          ("floor_divide", operator.floordiv), ("matmul", operator.matmul),
          ("less", operator.lt), ("less_equal", operator.le), ("greater", operator.gt),
          ("greater_equal", operator.ge), ("equal", operator.eq), ("not_equal", operator.ne)]
UNOPS = [("negative", operator.neg), ("positive", operator.pos), ("absolute", abs)]
REDUCTIONS = [("add", "sum"), ("multiply", "prod"), ("logical_and", "all"), ("logical_or", "any"),
              ("maximum", "amax"), ("minimum", "amin")]


OUT_COMPARE = ["less", "less_equal", "greater", "greater_equal", "equal", "not_equal"]
OUT_CONST_BINARY = ["add", "subtract", "multiply", "floor_divide", "true_divide", "remainder",
                    "logical_and", "logical_or", "maximum", "minimum"]
OUT_CONST_UNARY = ["negative", "positive", "absolute", "square", "rint", "floor", "ceil", "isfinite"]
OUT_POLY_BINARY = ["add", "subtract", "multiply", "floor_divide", "true_divide"]
OUT_POLY_UNARY = ["negative", "positive", "square"]


def out_pairs(numpoly, name, args, out_kind, make_args=None):
    """The two function spellings called with out=<fresh buffer>; None when the call is not valid
    without out= either. With ``make_args`` the output is the (freshly built) first operand itself."""
    try:
        with warnings.catch_warnings():
            warnings.simplefilter("ignore")
            ref = getattr(numpoly, name)(*args)
    except Exception:  # pylint: disable=broad-except
        return None
    if make_args is not None:
        if not isinstance(ref, numpoly.ndpoly) or not ref.ndim:
            return None

        def alias_call(namespace):
            def run():
                fresh = make_args()
                target = fresh[0]
                result = getattr(namespace, name)(*fresh, out=target)
                return [result, target]
            return run
        # the reference: what the operation gives without out= (the aliasing must not matter)
        return [("numpy", alias_call(numpy)), ("numpoly", alias_call(numpoly)),
                ("without out", lambda: [ref, ref])]
    if out_kind == "plain":
        if isinstance(ref, numpoly.ndpoly):
            if not ref.isconstant():
                return None
            ref = ref.tonumpy()
        ref = numpy.asarray(ref)
        if not ref.ndim:
            return None

        def buffer():
            return numpy.full(ref.shape, 77).astype(ref.dtype)
    else:
        if not isinstance(ref, numpoly.ndpoly) or not ref.ndim:
            return None

        def buffer():
            return numpoly.polynomial_from_attributes(
                ref.exponents, [numpy.zeros(ref.shape, dtype=ref.dtype)] * len(ref.exponents),
                names=ref.names, dtype=ref.dtype, retain_coefficients=True, retain_names=True)

    def call(namespace):
        def run():
            target = buffer()
            result = getattr(namespace, name)(*args, out=target)
            return [result, target]
        return run
    return [("numpy", call(numpy)), ("numpoly", call(numpoly))]


def run_operator_case(case, ctx):
    import numpoly

    kind = case["op"]
    a = G.build(case["a"])
    b = G.build(case["b"]) if case.get("b") is not None else None
    if case.get("same"):
        b = a
    facts = {"op": kind, "form": case["form"]}
    pairs = []
    if case["form"] == "binary":
        name, pyop = next(x for x in BINOPS if x[0] == kind)
        pairs = [("operator", lambda: pyop(a, b)), ("numpy", lambda: getattr(numpy, name)(a, b)),
                 ("numpoly", lambda: getattr(numpoly, name)(a, b))]
    elif case["form"] == "unary":
        name, pyop = next(x for x in UNOPS if x[0] == kind)
        pairs = [("operator", lambda: pyop(a)), ("numpy", lambda: getattr(numpy, name)(a)),
                 ("numpoly", lambda: getattr(numpoly, name)(a))]
    elif case["form"] == "power":
        n = case["n"]
        pairs = [("operator", lambda: a ** n), ("numpy", lambda: numpy.power(a, n)),
                 ("numpoly", lambda: numpoly.power(a, n))]
    elif case["form"] == "division":
        pairs = {"truediv": [("operator", lambda: a / b), ("poly", lambda: numpoly.poly_divide(a, b))],
                 "mod": [("operator", lambda: a % b), ("poly", lambda: numpoly.poly_remainder(a, b))],
                 "divmod": [("operator", lambda: divmod(a, b)),
                            ("poly", lambda: numpoly.poly_divmod(a, b))]}[kind]
    elif case["form"] == "reduce":
        ufunc = getattr(numpy, kind)
        target = dict(REDUCTIONS)[kind]
        axis = case["axis"]
        extra = {}
        if case.get("where") is not None:
            extra["where"] = numpy.array(case["where"], dtype=bool).reshape(case["where_shape"])
        pairs = [("ufunc.reduce", lambda: ufunc.reduce(a, axis=axis, **extra)),
                 ("numpoly", lambda: getattr(numpoly, target)(a, axis=axis, **extra)),
                 ("numpy", lambda: getattr(numpy, target)(a, axis=axis, **extra))]
        # ... and the method of the same name where ndpoly has one
        method = {"add": "sum", "multiply": "prod", "logical_and": "all", "logical_or": "any",
                  "maximum": "max", "minimum": "min"}[kind]
        pairs.append(("method", lambda: getattr(a, method)(axis=axis, **extra)))
        if axis is None and not extra:
            pairs.append(("method()", lambda: getattr(a, method)()))
    elif case["form"] == "out":
        facts["out_kind"] = case["out_kind"]
        make_args = None
        if case.get("alias"):
            facts["alias"] = True
            ctx.count("out_alias_cases")

            def make_args():
                # (with a constant term, so that the operand has storage for every term of the
                # result of dividing by / combining with a number)
                first = (G.build(case["a"]) + 1).astype(float)
                return (first,) if b is None else (first, b)
            a = make_args()[0]
        pairs = out_pairs(numpoly, kind, (a,) if b is None else (a, b), case["out_kind"], make_args)
        if pairs is None:
            ctx.count("skipped_out_not_applicable")
            return
        ctx.count("out_cases")
    elif case["form"] == "accumulate":
        axis = case["axis"]
        if axis is None:
            # the default: running sums over the elements in row-major order, whatever the
            # memory layout of the operand
            pairs = [("method", lambda: a.cumsum()), ("numpoly", lambda: numpoly.cumsum(a)),
                     ("numpy", lambda: numpy.cumsum(a)),
                     ("ufunc.accumulate", lambda: numpy.add.accumulate(a.flatten(), axis=0))]
        else:
            pairs = [("ufunc.accumulate", lambda: numpy.add.accumulate(a, axis=axis)),
                     ("numpoly", lambda: numpoly.cumsum(a, axis=axis)),
                     ("method", lambda: a.cumsum(axis=axis))]
    results = [(label, outcome(func)) for label, func in pairs]
    base_label, base = results[0]
    for label, res in results[1:]:
        ctx.evaluated((kind, case["form"], base_label, label, case.get("axis")), True)
        ctx.count("spelling_pairs")
        if base[0] != res[0]:
            facts["raised_by"] = base_label if base[0] == "raised" else label
            ctx.violation(dict(facts, failure="raise_vs_return", pair=f"{base_label}|{label}"),
                          f"{kind}: {base_label} -> {base[1:] if base[0] == 'raised' else 'returned'}, "
                          f"{label} -> {res[1:] if res[0] == 'raised' else 'returned'}", case)
            if case["form"] == "out":
                continue  # the other pairs are still compared (one spelling may be a recorded finding)
            return
        if base[0] == "raised":
            continue
        text = compare(base[1], res[1])
        if text:
            ctx.violation(dict(facts, failure="value", pair=f"{base_label}|{label}"),
                          f"{kind}: {label} differs from {base_label}: {text}", case)
            return


def gen_out_case(g, cg, kind, flavour, op=None, oshape=None):
    """Explicit output buffers: a plain array (constant operands, comparisons) or a polynomial."""
    rng = g.rng
    case = {"form": "out"}
    while not oshape:
        oshape = g.shape(3)
    if flavour == "compare":
        case["op"], case["out_kind"] = op or rng.choice(OUT_COMPARE), "plain"
        case["a"] = g.poly(shape=oshape, kind=kind)
        case["b"] = g.poly(shape=g.compatible_shape(oshape), kind=kind)
    elif flavour == "const":
        case["out_kind"] = "plain"
        case["op"] = op or rng.choice(OUT_CONST_BINARY + OUT_CONST_UNARY)
        case["a"] = cg.poly(shape=oshape, kind=kind)
        case["b"] = None
        if case["op"] in OUT_CONST_BINARY:
            case["b"] = cg.poly(shape=g.compatible_shape(oshape), kind=kind) \
                if rng.random() < 0.6 else {"k": "py", "v": rng.choice([2, 3, 5])}
            if case["b"]["k"] == "poly":
                case["b"]["coefs"] = [G.nested_map(lambda v: v if v else 2, case["b"]["coefs"][0])]
        for spec in (case["a"], case["b"]):
            if spec and spec["k"] == "poly":
                spec.pop("dtype", None)
                spec.pop("zero_term", None)
    else:
        case["out_kind"] = "poly"
        case["op"] = op or rng.choice(OUT_POLY_BINARY + OUT_POLY_UNARY)
        case["a"] = g.poly(shape=oshape, kind=kind, allow_views=False)
        case["b"] = None
        if case["op"] in ("floor_divide", "true_divide"):
            case["b"] = {"k": "py", "v": rng.choice([2, 4])}
        elif case["op"] in OUT_POLY_BINARY:
            case["b"] = g.poly(shape=g.compatible_shape(oshape), kind=kind)
        if case["op"] in ("floor_divide", "true_divide", "negative", "positive") and rng.random() < 0.5:
            # the output is the first operand itself (p /= c spelled with out=)
            case["alias"] = True
    return case


def after_error(ctx):
    """A call that fails half-way (here: a callback that raises) leaves nothing behind: the next
    call of the same function gives the same result in both spellings as if nothing had happened."""
    import numpoly

    q0, q1 = numpoly.variable(2)
    mat = numpoly.polynomial([[q0, q1 + 1, 2], [q0 * q1, 3, q1 ** 2]])
    case = {"form": "after_error", "op": "apply_along_axis"}
    if not ctx.begin(case):
        return

    class Boom(Exception):
        pass

    for axis in (0, 1):
        for namespace in (numpoly, numpy):
            seen = []

            def bad(row):
                seen.append(1)
                if len(seen) >= 2:
                    raise Boom()
                return numpoly.sum(row * 1.5)
            try:
                namespace.apply_along_axis(bad, axis, mat)
            except Boom:
                pass
            except Exception:  # pylint: disable=broad-except
                pass
            results = [outcome(lambda ns=ns: ns.apply_along_axis(numpoly.sum, axis, mat))
                       for ns in (numpoly, numpy)]
            reference = outcome(lambda: numpoly.sum(mat, axis=axis))
            ctx.evaluated(("after_error", "apply_along_axis", axis, namespace.__name__), True)
            ctx.count("after_error_cases")
            for label, res in zip(("numpoly", "numpy"), results):
                text = "raised" if res[0] != "ok" else (compare(reference[1], res[1]) if reference[0] == "ok" else None)
                if text:
                    ctx.violation({"op": "apply_along_axis", "form": "after_error", "failure": "value",
                                   "pair": "sum|" + label},
                                  f"apply_along_axis(sum) after a call whose callback raised: "
                                  f"{label} spelling: {text} {res[1:] if res[0] != 'ok' else ''}", case)
    ctx.end()


def run_operators(spec, ctx):
    g = G.Gen(spec["seed"] * 1000003 + 88)
    cg = C.ConstGen(0)
    cg.rng = g.rng
    rng = g.rng
    # every function that takes out= is driven at least twice per run and output kind
    for flavour, ops in (("compare", OUT_COMPARE), ("const", OUT_CONST_BINARY + OUT_CONST_UNARY),
                         ("poly", OUT_POLY_BINARY + OUT_POLY_UNARY)):
        for op in ops:
            for kind, oshape in (("int", (1, 3)), ("float", (2, 3)), ("int", (1,)), ("float", (2, 1, 2))):
                case = gen_out_case(g, cg, kind, flavour, op, oshape)
                ctx.run_case(case, lambda c: run_operator_case(c, ctx))
                if flavour == "poly" and op in ("floor_divide", "true_divide", "negative", "positive"):
                    other = dict(case, alias=not case.get("alias"))
                    ctx.run_case(other, lambda c: run_operator_case(c, ctx))
    after_error(ctx)
    for i in range(spec["n"]):
        form = rng.choice(["binary", "binary", "unary", "power", "division", "reduce", "reduce",
                           "accumulate", "binary_same", "binary_same", "out", "out", "out"])
        shape = g.shape(2)
        kind = rng.choice(["int", "float"])
        case = {"form": form}
        if form == "binary_same":
            # the same object as both operands; non-finite coefficients allowed
            case["form"] = "binary"
            case["op"] = rng.choice(["equal", "not_equal", "less", "greater_equal", "add", "subtract",
                                     "multiply"])
            spec = g.poly(shape=shape, kind="float")
            if rng.random() < 0.6 and spec["coefs"]:
                special = rng.choice([float("nan"), float("inf"), float("-inf")])
                def poke(data):
                    if isinstance(data, list):
                        return [poke(data[0])] + data[1:] if data else data
                    return special
                spec["coefs"][0] = poke(spec["coefs"][0])
            case["a"] = spec
            case["b"] = None
            case["same"] = True
        elif form == "binary":
            name = rng.choice(BINOPS)[0]
            gen = cg if name in ("floor_divide",) else g
            if name == "matmul":
                n = rng.choice([2, 3])
                case["a"] = g.poly(shape=(n, n), kind=kind, nterms=2, maxexp=1)
                case["b"] = g.poly(shape=(n, n), kind=kind, nterms=2, maxexp=1)
            else:
                case["a"] = gen.poly(shape=shape, kind=kind)
                case["b"] = gen.poly(shape=g.compatible_shape(shape), kind=kind) \
                    if rng.random() < 0.7 else g.const_operand(shape=g.compatible_shape(shape), kind=kind)
                if name == "floor_divide":
                    case["b"] = {"k": "py", "v": rng.choice([2, 3, -2])}
            case["op"] = name
        elif form == "out":
            case.update(gen_out_case(g, cg, kind, rng.choice(["compare", "const", "const", "poly"])))
        elif form == "unary":
            case["op"] = rng.choice(UNOPS)[0]
            case["a"] = (cg if case["op"] == "absolute" else g).poly(shape=shape, kind=kind)
        elif form == "power":
            case["op"] = "power"
            case["a"] = g.poly(shape=shape, kind=kind, nterms=2, maxexp=2)
            case["n"] = rng.choice([0, 1, 2, 3])
        elif form == "division":
            case["op"] = rng.choice(["truediv", "mod", "divmod"])
            names = rng.choice([["q0"], ["q0", "q1"]])
            case["a"] = g.poly(shape=shape, names=names, kind=kind, nterms=3, maxexp=3,
                               allow_views=False)
            case["b"] = g.poly(shape=(), names=names, kind=kind, nterms=2, maxexp=2,
                               allow_views=False)
        elif form == "reduce":
            case["op"] = rng.choice(REDUCTIONS)[0]
            shape = C.nd_shape(g, mindim=1)
            const = case["op"] in ("logical_and", "logical_or")
            if case["op"] == "multiply":
                case["a"] = g.poly(shape=shape, kind=kind, nterms=2, maxexp=1,
                                   names=rng.choice([["q0", "q1"], ["q1", "q2"], ["q2"]]))
                if rng.random() < 0.3:
                    case["a"]["dtype"] = rng.choice(["float32", "float16"] if kind == "float"
                                                    else ["uint16", "uint64", "int16", "uint8"])
                    if case["a"]["dtype"].startswith("u"):
                        case["a"]["coefs"] = [G.nested_map(lambda v: abs(v) if not isinstance(v, dict) else v, c)
                                              for c in case["a"]["coefs"]]
            else:
                case["a"] = (cg if const else g).poly(shape=shape, kind=kind)
            case["axis"] = rng.choice(list(range(len(shape))) + [None, -1])
            if case["op"] in ("maximum", "minimum"):
                case["axis"] = None
            if case["op"] == "add" and rng.random() < 0.5:
                mshape = rng.choice([tuple(shape), tuple(shape[-1:])])
                case["where"] = g.array_data(mshape, "bool", zero_prob=0.0)
                case["where_shape"] = list(mshape)
        else:
            case["op"] = "add"
            shape = C.nd_shape(g, mindim=1)
            case["a"] = g.poly(shape=shape, kind=kind)
            case["axis"] = rng.choice(list(range(len(shape))) + [None, None])
            if case["axis"] is None and len(shape) >= 2 and rng.random() < 0.5:
                case["a"]["view"] = "T"
        if i < 2:
            ctx.sample(case)
        ctx.run_case(case, lambda c: run_operator_case(c, ctx))


# ---------------------------------------------------------------------------
class Spy:
    """M-DISPATCH: records whether the override protocol was engaged."""

    def __init__(self):
        import numpoly

        self.cls = numpoly.ndpoly
        self.events = []
        self.orig_func = self.cls.__array_function__
        self.orig_ufunc = self.cls.__array_ufunc__
        spy = self

        def array_function(self_, func, types, args, kwargs):
            spy.events.append(("function", getattr(func, "__name__", str(func))))
            return spy.orig_func(self_, func, types, args, kwargs)

        def array_ufunc(self_, ufunc, method, *inputs, **kwargs):
            spy.events.append(("ufunc", getattr(ufunc, "__name__", str(ufunc)), method))
            return spy.orig_ufunc(self_, ufunc, method, *inputs, **kwargs)

        self.cls.__array_function__ = array_function
        self.cls.__array_ufunc__ = array_ufunc

    def remove(self):
        self.cls.__array_function__ = self.orig_func
        self.cls.__array_ufunc__ = self.orig_ufunc


def templates(numpoly):
    q0, q1 = numpoly.variable(2)
    vec = numpoly.polynomial([q0, q1 + 1, 2 * q0 * q1])
    mat = numpoly.polynomial([[q0, 1], [q1, q0 * q1]])
    scal = numpoly.polynomial(q0 + 2)
    return [
        lambda f: f(vec), lambda f: f(mat), lambda f: f(vec, vec), lambda f: f(mat, mat),
        lambda f: f(vec, 1), lambda f: f(mat, 0), lambda f: f([vec, vec]), lambda f: f(vec, vec, vec),
        lambda f: f(scal), lambda f: f(vec, (1,)), lambda f: f(1, vec), lambda f: f((3,), vec),
        lambda f: f(mat, 1, 0), lambda f: f(vec, [0, 1], vec), lambda f: f(numpy.arange(3), vec),
        lambda f: f(vec, numpy.arange(3), 2), lambda f: f(mat, mat, 1), lambda f: f("i,i", vec, vec),
        lambda f: f(vec, vec, [1, 2]), lambda f: f([mat, mat], 0),
    ]


# numpy's own aliases, plus the documented design that the division operators' ufuncs are served
# by polynomial division (property statement)
REGISTRY_ALIASES = {("max", "amax"), ("min", "amin"), ("round", "around"), ("abs", "absolute"),
                    ("divide", "true_divide"), ("mod", "remainder"), ("divmod", "poly_divmod"),
                    ("divide", "poly_divide"), ("true_divide", "poly_divide"),
                    ("remainder", "poly_remainder"), ("mod", "poly_remainder"),
                    ("amax", "max"), ("amin", "min"), ("around", "round")}


def registry_audit(ctx, numpoly):
    """Every registered numpy callable is served by the implementation of that very function."""
    for label, table in (("FUNCTION_COLLECTION", numpoly.FUNCTION_COLLECTION),
                         ("UFUNC_COLLECTION", numpoly.UFUNC_COLLECTION)):
        for key, impl in list(table.items()):
            kname = getattr(key, "__name__", str(key))
            iname = getattr(impl, "__name__", str(impl))
            ctx.count("registry_entries")
            ctx.evaluated(("registry", label, kname, iname), True)
            same = kname == iname or (kname, iname) in REGISTRY_ALIASES or \
                getattr(numpy, iname, None) is key
            if not same:
                ctx.violation({"op": kname, "form": "registry", "failure": "wrong_implementation",
                               "implementation": iname},
                              f"{label}: numpy.{kname} is served by the implementation of "
                              f"'{iname}', a different function", {"op": kname, "kind": "registry"})


def run_negative(spec, ctx):
    import numpoly

    if ctx.begin({"op": "registry", "kind": "registry"}):
        registry_audit(ctx, numpoly)
        ctx.end()
    spy = Spy()
    ladder = templates(numpoly)
    try:
        # functions taking part in the override protocol
        seen = set()
        unreached = []
        # history: a registered function that shares its __name__ with an unregistered one of
        # another numpy module (numpy.diagonal / numpy.linalg.diagonal, outer, matmul, ...) is
        # called first, so that whatever the dispatcher remembers from served calls is in place
        # when its namesake has to be refused (seed C08-r13-1: lookup memo keyed by __name__)
        unregistered_names = set()
        for module in (numpy, numpy.linalg, numpy.fft):
            for name in dir(module):
                func = getattr(module, name, None)
                if callable(func) and hasattr(func, "_implementation") and \
                        func not in numpoly.FUNCTION_COLLECTION:
                    unregistered_names.add(getattr(func, "__name__", name))
        for key in list(numpoly.FUNCTION_COLLECTION):
            kname = getattr(key, "__name__", "")
            if kname not in unregistered_names or "save" in kname or "load" in kname:
                continue
            for tmpl in ladder:
                try:
                    with warnings.catch_warnings():
                        warnings.simplefilter("ignore")
                        tmpl(key)
                except Exception:  # pylint: disable=broad-except
                    continue
                ctx.count("negative_namesake_warmups")
                break
        for modname, module in (("numpy", numpy), ("numpy.linalg", numpy.linalg),
                                ("numpy.fft", numpy.fft)):
            for name in sorted(dir(module)):
                func = getattr(module, name, None)
                if not callable(func) or not hasattr(func, "_implementation"):
                    continue
                if func in numpoly.FUNCTION_COLLECTION or id(func) in seen:
                    continue
                seen.add(id(func))
                case = {"op": f"{modname}.{name}", "kind": "negative_function"}
                if not ctx.begin(case):
                    continue
                verdict = None
                for ti, tmpl in enumerate(ladder):
                    spy.events.clear()
                    try:
                        with warnings.catch_warnings():
                            warnings.simplefilter("ignore")
                            result = tmpl(func)
                        out = ("returned", type(result).__name__)
                    except numpoly.FeatureNotSupported:
                        out = ("FeatureNotSupported",)
                    except Exception as err:  # pylint: disable=broad-except
                        out = ("raised", type(err).__name__, str(err)[:150])
                    engaged = any(ev[0] == "function" and ev[1] == func.__name__
                                  for ev in spy.events)
                    if out[0] == "FeatureNotSupported":
                        verdict = ("held", ti)
                        break
                    if engaged:
                        verdict = ("violation", ti, out)
                        break
                ctx.evaluations += 1
                if verdict is None:
                    unreached.append(f"{modname}.{name}")
                    ctx.count("negative_functions_unreached")
                elif verdict[0] == "held":
                    ctx.count("negative_functions_engaged")
                    ctx.evaluated(("negative", modname, name, verdict[1]), True, n=0)
                else:
                    ctx.count("negative_functions_engaged")
                    ctx.violation({"op": f"{modname}.{name}", "kind": "negative_function",
                                   "failure": "not_refused", "outcome": verdict[2][0]},
                                  f"{modname}.{name} is not registered, the override protocol was "
                                  f"engaged (template {verdict[1]}) and the call {verdict[2]} instead "
                                  f"of raising FeatureNotSupported", case)
                ctx.end()
        if unreached:
            ctx.note("overridable numpy functions no template engaged (unreached): " +
                     ", ".join(unreached))
        ctx.sample({"kind": "negative_function", "op": "numpy.cumprod", "template": "f(vec)"})
        # ufuncs
        q0, q1 = numpoly.variable(2)
        vec = numpoly.polynomial([q0, q1 + 1, 2 * q0 * q1])
        ivec = numpoly.polynomial([1, 2, 3]) * q0
        for name in sorted(dir(numpy)):
            ufunc = getattr(numpy, name)
            if not isinstance(ufunc, numpy.ufunc):
                continue
            registered = ufunc in numpoly.UFUNC_COLLECTION
            if not registered:
                case = {"op": f"ufunc {name}", "kind": "negative_ufunc"}
                if ctx.begin(case):
                    args = [vec] * ufunc.nin
                    ctx.count("negative_ufuncs")
                    ctx.evaluated(("ufunc", name), True)
                    check_refused(ctx, numpoly, spy, lambda: ufunc(*args), case,
                                  f"numpy.{name}(poly{', poly' * (ufunc.nin - 1)})")
                    ctx.end()
            if ufunc.nin == 2 and ufunc.nout == 1:
                methods = [("outer", lambda u=ufunc: u.outer(vec, vec)),
                           ("at", lambda u=ufunc: u.at(vec.copy(), [0], ivec[:1])),
                           ("reduceat", lambda u=ufunc: u.reduceat(vec, [0, 2]))]
                from numpoly.baseclass import ACCUMULATE_MAPPINGS, REDUCE_MAPPINGS
                if ufunc not in REDUCE_MAPPINGS:
                    methods.append(("reduce", lambda u=ufunc: u.reduce(vec)))
                if ufunc not in ACCUMULATE_MAPPINGS:
                    methods.append(("accumulate", lambda u=ufunc: u.accumulate(vec)))
                elif ACCUMULATE_MAPPINGS[ufunc] not in numpoly.UFUNC_COLLECTION:
                    methods.append(("accumulate", lambda u=ufunc: u.accumulate(vec)))
                for mname, call in methods:
                    case = {"op": f"ufunc {name}.{mname}", "kind": "ufunc_method"}
                    if not ctx.begin(case):
                        continue
                    ctx.count("ufunc_methods")
                    ctx.evaluated(("ufunc_method", name, mname), True)
                    check_refused(ctx, numpoly, spy, call, case, f"numpy.{name}.{mname}(poly...)")
                    ctx.end()
    finally:
        spy.remove()


def check_refused(ctx, numpoly, spy, call, case, what):
    spy.events.clear()
    try:
        with warnings.catch_warnings():
            warnings.simplefilter("ignore")
            result = call()
    except numpoly.FeatureNotSupported:
        return
    except Exception as err:  # pylint: disable=broad-except
        if spy.events:
            ctx.violation({"op": case["op"], "kind": case["kind"], "failure": exc_fact(err)},
                          f"{what}: protocol engaged but raised {type(err).__name__}: {err} instead "
                          f"of FeatureNotSupported", case)
        else:
            ctx.count("negative_not_engaged")
        return
    if spy.events:
        ctx.violation({"op": case["op"], "kind": case["kind"], "failure": "not_refused"},
                      f"{what} returned {type(result).__name__} {result!r:.150} instead of raising "
                      f"FeatureNotSupported", case)
    else:
        ctx.count("negative_not_engaged")


def run(spec, ctx):
    if "replay_case" in spec:
        case = spec["replay_case"]
        if case.get("kind", "").startswith("negative") or case.get("kind") == "ufunc_method":
            run_negative(spec, ctx)
        elif "form" in case:
            ctx.run_case(case, lambda c: run_operator_case(c, ctx))
        else:
            ctx.run_case(case, lambda c: run_positive_case(c, ctx))
        return
    {"positive": run_positive, "operators": run_operators, "negative": run_negative}[spec["kind"]](
        spec, ctx)
