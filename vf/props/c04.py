"""C04: alignment changes representation only."""
from __future__ import annotations

import numpy

from vf import gen as G
from vf import model as M
from vf import oracle as O
from vf.monitors.immut import snapshot, changed

META = {
    "level": "exploration",
    "rule": (
        "tuples of 1-4 polynomial-likes (polynomials, numbers, lists, arrays; broadcastable shapes; "
        "equal / overlapping / disjoint name sets incl. q10 vs q2; differing term sets and dtypes) "
        "through align_polynomials / align_shape / align_indeterminants / align_exponents: outputs "
        "model-equal to the (broadcast) inputs, in order, sharing shape / ordered names / exponent "
        "rows and keys as the function promises; second alignment is the identity; inputs unchanged "
        "byte for byte. signature = (function, arity, shapes, name relation, kinds); non-trivial "
        "when the arguments differ in shape, names or terms"
    ),
    "assumptions": ["a non-polynomial argument contributes the default name q0"],
    "min_evaluations": {"quick": 8000, "thorough": 150000},
}
FUNCS = ["align_polynomials", "align_shape", "align_indeterminants", "align_exponents"]


def shards(tier, seed):
    n = 8 if tier == "quick" else 16
    per = 1200 if tier == "quick" else 12000
    return [{"part": i, "n": per} for i in range(n)]


def facts_of_case(case):
    return {"op": case.get("fn", "align")}


def gen_case(g):
    rng = g.rng
    count = rng.choice([1, 2, 2, 2, 3, 3, 4])
    base = g.shape()
    kind = rng.choice(G.KINDS)
    ops = []
    for i in range(count):
        shape = base if i == 0 else g.compatible_shape(base)
        lkind = kind if rng.random() < 0.7 else rng.choice(G.KINDS)
        if rng.random() < 0.75:
            ops.append(g.poly(shape=shape, kind=lkind))
            if rng.random() < 0.15:
                # names stored in another than index order (as polynomial_from_attributes keeps them)
                G.permute_names(ops[-1], rng)
        else:
            ops.append(g.const_operand(shape=shape, kind=lkind))
            if ops[-1]["k"] == "list" and rng.random() < 0.5:
                ops[-1]["tuple"] = True  # a tuple is an ordinary array-like: one operand
        if count == 1 and ops[-1]["k"] not in ("list", "plist") and rng.random() < 0.3:
            # a single operand that is a sequence of polynomials / numbers
            items = [g.poly(shape=(), kind=lkind, maxexp=2, allow_views=False) if rng.random() < 0.6
                     else {"k": "py", "v": G.jnum(g.number(lkind))} for _ in range(rng.choice([2, 3]))]
            ops[-1] = {"k": "plist", "items": items, "tuple": rng.random() < 0.6}
    if rng.random() < 0.1 and count >= 2:
        ops[1] = ops[0]  # same operand twice
    case = {"fn": rng.choice(FUNCS), "operands": ops}
    if rng.random() < 0.08:
        case["prefix"] = rng.choice(["var", "x", "zz"])
    if ops[0]["k"] == "poly" and rng.random() < 0.12:
        case["relative"] = rng.choice(["T", "T", "newaxis"])
        ops[0].pop("view", None)
    if rng.random() < 0.06:
        # unsigned 64-bit coefficients beyond 2**53 (exact only as integers)
        for spec in ops:
            if spec["k"] == "poly" and spec["kind"] == "int":
                spec["dtype"] = "uint64"
                spec["coefs"] = [G.nested_map(
                    lambda v: rng.choice([2 ** 53 + 1, 2 ** 64 - 1, 2 ** 63 + 5]) if v else 0, c)
                    for c in spec["coefs"]]
    if count >= 2 and rng.random() < 0.2:
        case["pre"] = rng.choice(["align_exponents", "align_indeterminants", "align_exponents"])
    if rng.random() < 0.3:
        # alignment forces the retain flags: the global options must not matter
        case["options"] = {"retain_names": rng.random() < 0.4, "retain_coefficients": rng.random() < 0.5}
    return case


def default_name():
    import numpoly

    return numpoly.get_options()["default_varname"] + "0"


def renamed(spec, prefix):
    """The same operand over indeterminates <prefix><n> instead of q<n>."""
    if spec["k"] == "poly":
        return {**spec, "names": [prefix + n[1:] for n in spec["names"]]}
    if spec["k"] == "plist":
        return {**spec, "items": [renamed(item, prefix) for item in spec["items"]]}
    return spec


def expected_names(specs):
    names = set()
    for spec in specs:
        if spec["k"] == "poly":
            names |= set(spec["names"])
        elif spec["k"] == "plist":
            # one operand: the composed array (numbers among polynomials bring no name of their own)
            inner = set()
            for item in spec["items"]:
                if item["k"] == "poly":
                    inner |= set(item["names"])
            names |= inner or {default_name()}
        else:
            names.add(default_name())
    return tuple(sorted(names, key=M.numsuffix))


def structure(poly):
    return (tuple(poly.shape), tuple(poly.names), poly.exponents.tolist(),
            [str(k) for k in poly.keys], str(poly.dtype), numpy.asarray(poly).tobytes())


def run_case(case, ctx):
    import numpoly

    prefix = case.get("prefix")
    if prefix and not case.get("_renamed"):
        # the whole case under another variable prefix (after other cases ran under "q":
        # nothing about the naming convention may be remembered from earlier calls)
        table = {}
        operands = []
        for spec in case["operands"]:
            if id(spec) not in table:
                table[id(spec)] = renamed(spec, prefix)
            operands.append(table[id(spec)])
        defaults = numpoly.get_options()
        ctx.count("other_prefix_cases")
        try:
            with numpoly.global_options(default_varname=prefix, varname_filter=prefix + r"\d+"):
                run_case({**case, "operands": operands, "_renamed": True}, ctx)
        finally:
            numpoly.set_options(**defaults)
        return
    specs = case["operands"]
    fn = case["fn"]
    real = []
    built = {}
    for spec in specs:
        key = id(spec)
        if key not in built:
            built[key] = G.build(spec)
        real.append(built[key])
    mods = [G.model(s) for s in specs]
    feats = [G.spec_features(s) for s in specs]
    relative = case.get("relative")
    if relative and real and isinstance(real[0], numpoly.ndpoly) and real[0].ndim >= 1:
        # a second operand that is a view of the first one (its transpose / a reshape): same
        # storage, same key and name objects, another shape
        ctx.count("relative_operands")
        if relative == "T":
            view, vmod = real[0].T, mods[0].T
        else:
            view, vmod = real[0].reshape(real[0].shape + (1,)), mods[0].reshape(mods[0].shape + (1,))
        specs = list(specs) + [dict(specs[0], shape=list(vmod.shape))]
        real.append(view)
        mods.append(vmod)
        feats.append(dict(feats[0], shape=tuple(vmod.shape)))
    try:
        common = numpy.broadcast_shapes(*[m.shape for m in mods])
    except ValueError:
        ctx.count("skipped_unbroadcastable")
        return
    rel = "single"
    if len(feats) > 1:
        rel = "+".join(sorted({G.name_relation(feats[0]["names"] or ("q0",), f["names"] or ("q0",))
                               for f in feats[1:]}))
    sig = (fn, len(specs), tuple(f["shape"] for f in feats), rel, tuple(f["kind"] for f in feats))
    nontrivial = len({(f["shape"], f["names"], f["nterms"]) for f in feats}) > 1
    ctx.evaluated(sig, nontrivial)
    ctx.count(fn)
    facts = {"op": fn, "arity": len(specs), "kinds": "|".join(f["kind"] for f in feats),
             "view": any(f.get("view") for f in feats)}
    pre = case.get("pre")
    if pre:
        # the operands went through another alignment function first (its outputs keep whatever
        # that function does not align, e.g. different shapes after align_exponents)
        facts["pre"] = pre
        ctx.count("pre_aligned_cases")
        try:
            real = list(getattr(numpoly, pre)(*real))
        except Exception as perr:  # pylint: disable=broad-except
            O.report_exception(ctx, dict(facts, failure_in="pre"), perr, case, what=pre)
            return
    before = [snapshot(r) for r in real]
    options = case.get("options") or {}
    facts["options"] = ",".join(f"{k}={v}" for k, v in sorted(options.items()))
    defaults = numpoly.get_options()
    try:
        with numpoly.global_options(**options):
            out, err = O.call_guard(getattr(numpoly, fn), *real)
    finally:
        numpoly.set_options(**defaults)
    for n, (r, snap) in enumerate(zip(real, before)):
        diff = changed(snap, snapshot(r))
        if diff:
            facts2 = dict(facts, failure="mutated")
            ctx.violation(facts2, f"{fn}: argument {n} modified: {diff}", case)
            return
    if err is not None:
        O.report_exception(ctx, facts, err, case, what=fn)
        return
    if not isinstance(out, tuple) or len(out) != len(real):
        facts["failure"] = "type"
        ctx.violation(facts, f"{fn}: returned {type(out).__name__} of length "
                             f"{len(out) if hasattr(out, '__len__') else '?'}", case)
        return
    aligns_shape = fn in ("align_polynomials", "align_shape")
    aligns_names = fn in ("align_polynomials", "align_indeterminants", "align_exponents")
    aligns_terms = fn in ("align_polynomials", "align_exponents")
    for n, (o, m) in enumerate(zip(out, mods)):
        if not isinstance(o, numpoly.ndpoly):
            facts["failure"] = "type"
            ctx.violation(facts, f"{fn}: output {n} is {type(o).__name__}", case)
            return
        want = numpy.broadcast_to(m, common) if aligns_shape else m
        problem = O.mismatch(o, want)
        if problem is not None:
            facts["failure"] = problem[0]
            ctx.violation(facts, f"{fn}: output {n} (order kept?) {problem[1]}", case)
            return
    if aligns_shape and any(tuple(o.shape) != tuple(common) for o in out):
        facts["failure"] = "shape"
        ctx.violation(facts, f"{fn}: shapes {[o.shape for o in out]} != {common}", case)
        return
    # index order is what align_indeterminants promises; align_exponents / align_polynomials only
    # have to build the union (in index order) when the operands' name tuples differ
    tuples = {tuple(s["names"]) if s["k"] == "poly" else
              (("plist", id(s)) if s["k"] == "plist" else ("q0",)) for s in specs}
    ordered = fn == "align_indeterminants" or len(tuples) > 1
    if aligns_names and options:
        # under non-default retain options unused input names may legitimately be dropped:
        # the outputs must still share one name tuple, in index order, covering what is used
        shared = tuple(out[0].names)
        needed = set()
        for m in mods:
            needed |= M.all_names(m)
        for n, o in enumerate(out):
            if tuple(o.names) != shared or not needed <= set(shared) or \
                    (ordered and list(shared) != sorted(shared, key=M.numsuffix)):
                facts["failure"] = "names"
                ctx.violation(facts, f"{fn} under {options}: output {n} names {o.names}; output 0 "
                                     f"names {shared}; names in use {sorted(needed)}", case)
                return
    elif aligns_names:
        want_names = expected_names(specs)
        for n, o in enumerate(out):
            if tuple(o.names) != want_names and (ordered or tuple(o.names) != tuple(out[0].names)
                                                 or set(o.names) != set(want_names)):
                facts["failure"] = "names"
                ctx.violation(facts, f"{fn}: output {n} names {o.names} != union in index order "
                                     f"{want_names}", case)
                return
    if aligns_terms:
        rows = out[0].exponents.tolist()
        keys = [str(k) for k in out[0].keys]
        for n, o in enumerate(out):
            if o.exponents.tolist() != rows or [str(k) for k in o.keys] != keys:
                facts["failure"] = "terms"
                ctx.violation(facts, f"{fn}: output {n} exponents/keys differ from output 0:\n"
                                     f"{o.exponents.tolist()} vs {rows}", case)
                return
        if len(set(map(tuple, rows))) != len(rows):
            facts["failure"] = "terms"
            ctx.violation(facts, f"{fn}: duplicate exponent rows {rows}", case)
            return
    # idempotence: aligning the aligned changes nothing
    first = [structure(o) for o in out]
    again, err2 = O.call_guard(getattr(numpoly, fn), *out)
    ctx.evaluated(("idem",) + sig, nontrivial)
    if err2 is not None:
        O.report_exception(ctx, dict(facts, rider="idempotence"), err2, case,
                           what=f"{fn} on aligned arguments")
        return
    second = [structure(o) for o in again]
    if first != second:
        which = [i for i, (a, b) in enumerate(zip(first, second)) if a != b]
        facts["failure"] = "idempotence"
        ctx.violation(facts, f"{fn}: aligning aligned arguments changed outputs {which}: "
                             f"{[ (first[i][:4], second[i][:4]) for i in which][:2]}", case)
        return
    # outputs made from plain numbers / lists / arrays are new objects of the caller: writing into
    # them must not change what the next alignment of the same inputs returns
    fresh = [i for i, spec in enumerate(specs) if spec["k"] in ("py", "np", "list", "arr")]
    if fresh and not pre:
        for i in fresh:
            raw = out[i].values
            if raw.flags.writeable:
                for key in raw.dtype.names:
                    raw[key] = 77
        ctx.count("outputs_overwritten")
        third, err3 = O.call_guard(getattr(numpoly, fn), *real)
        if err3 is not None:
            O.report_exception(ctx, dict(facts, rider="after_write"), err3, case,
                               what=f"{fn} after writing into earlier outputs")
            return
        for i in fresh:
            want = numpy.broadcast_to(mods[i], common) if aligns_shape else mods[i]
            problem = O.mismatch(third[i], want)
            if problem is not None:
                ctx.violation(dict(facts, failure="aliased_result", rider="after_write"),
                              f"{fn}: after writing into the output made from operand {i}, aligning "
                              f"the same inputs again gives {problem[1]}", case)
                return


def run(spec, ctx):
    if "replay_case" in spec:
        ctx.run_case(spec["replay_case"], lambda c: run_case(c, ctx))
        return
    g = G.Gen(spec["seed"] * 1000003 + spec["part"] * 7919 + 4)
    for i in range(spec["n"]):
        case = gen_case(g)
        if i < 2 and spec["part"] == 0:
            ctx.sample(case)
        ctx.run_case(case, lambda c: run_case(c, ctx))
