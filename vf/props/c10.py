"""C10: reductions and linear algebra equal finite sums and products of elements."""
from __future__ import annotations

from vf import catalogue as C
from vf import catrun

META = {
    "level": "exploration",
    "rule": (
        "per catalogue entry (sum cumsum mean prod diff ediff1d inner outer matmul det) seeded valid "
        "arguments (every axis, axis tuple, keepdims, n, prepend/append, to_begin/to_end; vectors, "
        "matrices incl. 1x1..4x4, stacked and broadcasting matmul operands) x spelling (numpoly / "
        "numpy / method); expected = folds of the exact model's + and * (det by Leibniz expansion); "
        "signature = (function, spelling, shapes, operand kinds, argument pattern); non-trivial when "
        "an operand has >= 2 elements"
    ),
    "assumptions": ["mean and float inputs are compared with relative tolerance 1e-9"],
    "min_evaluations": {"quick": 8000, "thorough": 150000},
}


def shards(tier, seed):
    n = 8 if tier == "quick" else 16
    per = 150 if tier == "quick" else 1500
    return [{"part": i, "per_op": per} for i in range(n)]


def facts_of_case(case):
    return {"op": case.get("op", "?")}


def run(spec, ctx):
    catrun.run_group(spec, ctx, C.GROUP_C10, spec.get("per_op", 1), check_meta=False)
