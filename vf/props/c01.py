"""C01: ring arithmetic on polynomial arrays is exact.

Random expression DAGs (depth <= 4) over + - neg pos * ** whose leaves come
from the operand classes; every node is executed on the real objects in one of
the spellings (operator / numpy / numpoly) and compared with the exact model.
"""
from __future__ import annotations

import operator
import random

import numpy

from vf import gen as G
from vf import model as M
from vf import oracle as O

META = {
    "level": "exploration",
    "rule": (
        "seeded random expression DAGs (<= 4 operator nodes, results reused as operands, same "
        "object on both sides) over leaves from the operand classes (shapes 0-d..3-d with "
        "size-1 broadcasting, equal/overlapping/disjoint name sets incl. q10 vs q2, 0-6 terms "
        "incl. zero polynomial and explicit zero coefficients, int/float/complex, Python and "
        "numpy scalars, lists, C/F/strided/read-only ndarrays, transposed ndpoly views); one "
        "evaluation = one operator node compared with the exact model; signature = (op, "
        "spelling, operand kinds, shapes, name relation, coefficient kinds, depth); "
        "non-trivial when some operand has >= 2 terms or a non-scalar shape and the operands "
        "are not all constants"
    ),
    "assumptions": [
        "integer magnitudes are kept below 2**40 so int64 arithmetic cannot overflow",
        "float/complex results are compared with relative tolerance 1e-9",
    ],
    "min_evaluations": {"quick": 10000, "thorough": 200000},
}

BINARY = {
    "add": (operator.add, "add", lambda a, b: M.m_add(a, b)),
    "sub": (operator.sub, "subtract", lambda a, b: M.m_sub(a, b)),
    "mul": (operator.mul, "multiply", lambda a, b: M.m_mul(a, b)),
}
UNARY = {
    "neg": (operator.neg, "negative", M.m_neg),
    "pos": (operator.pos, "positive", lambda a: M.wrap(a)),
}
LIMIT_MAG = 2.0 ** 40
LIMIT_TERMS = 40
LIMIT_DEG = 24


def shards(tier, seed):
    n = 8 if tier == "quick" else 16
    per = 1500 if tier == "quick" else 15000
    return [{"n": per, "part": i} for i in range(n)]


def facts_of_case(case):
    return {"op": "dag"}


def mixed_list(gen, base):
    """A flat list mixing plain Python numbers with narrow numpy scalars and narrow 0-d polynomials.

    numpy gives such a list the promoted dtype of its *types* (``[float32(.5), .1]`` is float64,
    ``[int8(2), 1000]`` is int64): the Python numbers must keep their full value.
    """
    rng = gen.rng
    size = base[-1] if base and rng.random() < 0.8 else rng.choice([1, 2, 3])
    flavour = rng.choice(["float", "int"])
    items = []
    for _ in range(size):
        form = rng.choice(["py", "py", "np", "poly"])
        if form == "py":
            val = rng.choice([0.1, 0.3, -1.7, 1e-3, 2.5]) if flavour == "float" else \
                rng.choice([1000, -129, 70000, 3, 40000])
            items.append({"k": "py", "v": G.jnum(val)})
        elif form == "np":
            dtype = rng.choice(["float32", "float16"]) if flavour == "float" else \
                rng.choice(["int8", "int16", "uint8"])
            val = rng.choice([0.5, 1.0, 2.0, 0.25]) if flavour == "float" else rng.choice([1, 2, 3])
            items.append({"k": "np", "v": G.jnum(val), "dtype": dtype})
        else:
            item = gen.poly(shape=(), kind=flavour, maxexp=2, allow_views=False)
            item["dtype"] = rng.choice(["float32", "float16"]) if flavour == "float" else \
                rng.choice(["int8", "int16"])
            items.append(item)
    if rng.random() < 0.3 and len(base) >= 1:
        # a nested list whose rows have different number types (first row ints, later rows
        # non-integral floats): numpy's array of it is float64
        ncol = base[-1]
        rows = [[rng.choice([1, 2, -3, 0]) for _ in range(ncol)],
                [rng.choice([0.5, 1.5, -2.25, 0.1]) for _ in range(ncol)]]
        if rng.random() < 0.5:
            rows.append([rng.choice([1, 4]) for _ in range(ncol)])
        return {"k": "list", "data": rows}
    return {"k": "plist", "items": items}


def gen_case(gen):
    rng = gen.rng
    base = gen.shape()
    kind = rng.choice(G.KINDS)
    nleaves = rng.choice([1, 2, 2, 3])
    nodes = []
    # first leaf is always a polynomial
    for i in range(nleaves):
        shape = base if i == 0 else gen.compatible_shape(base)
        lkind = kind if rng.random() < 0.8 else rng.choice(G.KINDS)
        if i == 0 or rng.random() < 0.65:
            leaf = gen.poly(shape=shape, kind=lkind, maxexp=rng.choice([2, 3, 5]))
            if rng.random() < 0.1:
                G.permute_names(leaf, rng)  # names stored in another than index order
            if rng.random() < 0.12:
                # narrower coefficient types: a different code path of the native layer
                leaf["dtype"] = {"int": rng.choice(["int32", "int16"]), "float": "float32",
                                 "complex": "complex64"}[lkind]
        elif rng.random() < 0.25:
            leaf = mixed_list(gen, base)
        else:
            leaf = gen.const_operand(shape=shape, kind=lkind)
        nodes.append({"leaf": leaf})
    nops = rng.choice([1, 2, 2, 3, 3, 4])
    for _ in range(nops):
        op = rng.choice(["add", "add", "sub", "sub", "mul", "mul", "mul", "neg", "pos", "pow"])
        spelling = rng.choice(["operator", "operator", "numpy", "numpoly"])
        if op in BINARY:
            i = rng.randrange(len(nodes))
            j = i if rng.random() < 0.15 else rng.randrange(len(nodes))
            nodes.append({"op": op, "args": [i, j], "sp": spelling})
        elif op in UNARY:
            nodes.append({"op": op, "args": [rng.randrange(len(nodes))], "sp": spelling})
        else:
            i = rng.randrange(len(nodes))
            form = rng.choice(["py", "py", "np", "arr", "arr", "list"])
            if form == "py":
                exp = {"k": "py", "v": rng.choice([0, 1, 2, 2, 3, 4, 6])}
            elif form == "np":
                exp = {"k": "np", "v": rng.choice([0, 1, 2, 3]),
                       "dtype": rng.choice(["int64", "int32", "uint8"])}
            else:
                eshape = gen.compatible_shape(base)
                data = gen.array_data(eshape, "int", zero_prob=0.15)
                data = G.nested_map(lambda v: abs(v) % 4, data)
                if form == "list" and eshape:
                    exp = {"k": "list", "data": data}
                else:
                    exp = {"k": "arr", "data": data, "dtype": "int64", "shape": list(eshape),
                           "layout": "C"}
            nodes.append({"op": "pow", "args": [i], "exp": exp, "sp": spelling})
    return {"nodes": nodes}


def stats(arr):
    arr = M.wrap(arr)
    mag, terms, deg = 0.0, 0, 0
    for elem in arr.ravel().tolist():
        mag = max(mag, elem.max_abs())
        terms = max(terms, elem.nterms())
        deg = max(deg, max((elem.degree(n) for n in elem.names()), default=0))
    return mag, terms, deg


def apply(node, args):
    """Execute one operator node on real objects in the requested spelling."""
    import numpoly

    op, spelling = node["op"], node["sp"]
    if op in BINARY:
        pyop, name, _ = BINARY[op]
        a, b = args
        if spelling == "numpy":
            return getattr(numpy, name)(a, b)
        if spelling == "numpoly":
            return getattr(numpoly, name)(a, b)
        return pyop(a, b)
    if op in UNARY:
        pyop, name, _ = UNARY[op]
        if spelling == "numpy":
            return getattr(numpy, name)(args[0])
        if spelling == "numpoly":
            return getattr(numpoly, name)(args[0])
        return pyop(args[0])
    a, n = args
    if spelling == "numpy":
        return numpy.power(a, n)
    if spelling == "numpoly":
        return numpoly.power(a, n)
    return a ** n


def run_case(case, ctx):
    import numpoly

    nodes = case["nodes"]
    real, want, depth, feats, isconst = [], [], [], [], []
    for node in nodes:
        if "leaf" in node:
            spec = node["leaf"]
            obj = G.build(spec)
            real.append(obj)
            want.append(G.model(spec))
            depth.append(0)
            feats.append(G.spec_features(spec))
            feats[-1]["narrow"] = bool(spec.get("dtype"))
            # integer leaves in narrow types wrap around in their own arithmetic (numpy's rule):
            # results are only compared while every magnitude stays clear of that
            limits = {"int8": 2 ** 6, "uint8": 2 ** 6, "int16": 2 ** 14, "uint16": 2 ** 14,
                      "int32": 2 ** 30}
            items = spec["items"] if spec["k"] == "plist" else [spec]
            found = [limits[i["dtype"]] for i in items if i.get("dtype") in limits]
            feats[-1]["limit"] = min(found) if found else None
            if spec["k"] == "plist" and any(i.get("dtype") for i in items):
                feats[-1]["narrow"] = True
            isconst.append(spec["k"] != "poly")
            continue
        idx = node["args"]
        args = [real[i] for i in idx]
        margs = [want[i] for i in idx]
        if any(a is None for a in args):
            real.append(None); want.append(None); depth.append(9); feats.append(None)
            isconst.append(True)
            continue
        op = node["op"]
        if op == "pow":
            exp_real = G.build(node["exp"])
            exp_arr = numpy.asarray(exp_real)
            args = [args[0], exp_real]
            expected_fn = lambda: M.m_pow(margs[0], exp_arr)
            efeat = G.spec_features(node["exp"])
        elif op in BINARY:
            expected_fn = lambda: BINARY[op][2](margs[0], margs[1])
            efeat = None
        else:
            expected_fn = lambda: UNARY[op][2](margs[0])
            efeat = None
        # numpoly must be involved: at least one real operand is an ndpoly
        if not any(isinstance(a, numpoly.ndpoly) for a in args[:2 if op != "pow" else 1]):
            real.append(None); want.append(None); depth.append(9); feats.append(None)
            isconst.append(True)
            continue
        # bound cost and magnitude in the model before executing
        if op == "pow":
            m0 = stats(margs[0])
            emax = int(exp_arr.max()) if exp_arr.size else 0
            if m0[1] ** max(emax, 1) > 400 or m0[2] * max(emax, 1) > LIMIT_DEG or \
                    (m0[0] + 1) ** max(emax, 1) * max(m0[1], 1) ** max(emax, 1) > LIMIT_MAG:
                real.append(None); want.append(None); depth.append(9); feats.append(None)
                isconst.append(True)
                continue
        try:
            shape = numpy.broadcast_shapes(*[numpy.shape(w) for w in margs] +
                                           ([exp_arr.shape] if op == "pow" else []))
        except ValueError:
            real.append(None); want.append(None); depth.append(9); feats.append(None)
            isconst.append(True)
            continue
        expected = expected_fn()
        mag, terms, deg = stats(expected)
        pre = [stats(m) for m in margs]
        if mag > LIMIT_MAG or terms > LIMIT_TERMS or deg > LIMIT_DEG or \
                (op == "mul" and pre[0][0] * pre[1][0] * max(pre[0][1], 1) > LIMIT_MAG):
            real.append(None); want.append(None); depth.append(9); feats.append(None)
            isconst.append(True)
            continue
        d = 1 + max(depth[i] for i in idx)
        argfeats = [feats[i] for i in idx]
        kinds = tuple(f["kind"] for f in argfeats)
        coefs = tuple(sorted({f["coef"] for f in argfeats}))
        names_rel = (G.name_relation(argfeats[0]["names"], argfeats[1]["names"])
                     if len(argfeats) == 2 else "unary")
        facts = {
            "op": op, "spelling": node["sp"], "kinds": "|".join(kinds),
            "max_ndim": max([len(f["shape"]) for f in argfeats] + [exp_arr.ndim if op == "pow" else 0]),
            "readonly": any(f["kind"] == "arr:readonly" for f in argfeats),
            "view": any(f.get("view") for f in argfeats),
            "exponent_ndim": int(exp_arr.ndim) if op == "pow" else -1,
            "exponent_kind": efeat["kind"] if efeat else "",
            "same_object": len(idx) == 2 and idx[0] == idx[1],
        }
        got, err = O.call_guard(apply, node, args)
        ctx.count(f"op_{op}")
        ctx.count(f"spelling_{node['sp']}")
        exact = all(c in ("int", "int64", "int32", "int16", "uint8", "bool", "int_") or c == "int"
                    for c in coefs) and all(
            f["coef"] in ("int", "int64", "int32", "int16", "uint8") for f in argfeats)
        narrow = any(f.get("narrow") for f in argfeats)
        rtol = None if exact else (1e-4 if narrow else 1e-9)
        found = [f["limit"] for f in argfeats if f.get("limit")]
        limit = min(found) if found else None
        if (narrow and exact and mag > 2.0 ** 14) or (limit is not None and mag > limit):
            # int16 / int32 leaves: keep clear of their own wrap-around
            real.append(None); want.append(None); depth.append(9); feats.append(None)
            isconst.append(True)
            continue
        nontrivial = (any(f["nterms"] >= 2 or len(f["shape"]) > 0 for f in argfeats)
                      and not all(isconst[i] for i in idx))
        sig = (op, node["sp"], kinds, tuple(f["shape"] for f in argfeats), names_rel, coefs, d,
               facts["exponent_ndim"], tuple(f.get("view", "") for f in argfeats))
        ctx.evaluated(sig, nontrivial)
        bad = None
        if err is not None:
            O.report_exception(ctx, facts, err, case, what=f"node {len(real)} {op}/{node['sp']}")
            bad = True
        else:
            if not isinstance(got, numpoly.ndpoly):
                facts["failure"] = "type"
                ctx.violation(facts, f"node {len(real)} {op}: result type {type(got).__name__}", case)
                bad = True
            else:
                problem = O.mismatch(got, expected, rtol=rtol)
                if problem is not None:
                    facts["failure"] = problem[0]
                    ctx.violation(
                        facts,
                        f"node {len(real)} {op}/{node['sp']}: {problem[1]}\n"
                        f"  operands: {[M.describe(m, 160) for m in margs]}"
                        + (f" exponent={exp_arr.tolist()}" if op == "pow" else ""),
                        case)
                    bad = True
        if bad:
            # do not let a wrong node cascade into its consumers
            real.append(None); want.append(None); depth.append(9); feats.append(None)
            isconst.append(True)
            continue
        real.append(got)
        want.append(expected)
        depth.append(d)
        names = tuple(sorted(M.all_names(expected)))
        feats.append({"kind": "result", "coef": "int" if exact else "float", "narrow": narrow,
                      "limit": limit,
                      "shape": tuple(expected.shape),
                      "nterms": max((e.nterms() for e in expected.ravel().tolist()), default=0),
                      "names": names, "view": ""})
        isconst.append(False)


def run(spec, ctx):
    if "replay_case" in spec:
        ctx.run_case(spec["replay_case"], lambda c: run_case(c, ctx))
        return
    gen = G.Gen(spec["seed"] * 1000003 + spec["part"] * 7919 + 1)
    for i in range(spec["n"]):
        case = gen_case(gen)
        if i < 2 and spec["part"] == 0:
            ctx.sample(case)
        ctx.run_case(case, lambda c: run_case(c, ctx))
