"""C14: global options are scoped, restored on every exit path, updated atomically.

History + executable model: every history over the step alphabet is run with
real ``with`` blocks; after *every* step ``numpoly.get_options()`` is compared
with a sequential model (blocks remember the complete state at entry).
"""
from __future__ import annotations

import copy
import gc
import itertools
import random

META = {
    "level": "exploration",
    "rule": (
        "bounded-exhaustive histories over the alphabet {enter A/B/C/empty/prepared-earlier, exit, raise "
        "ValueError/KeyboardInterrupt, set X/Y, bad_set, bad_enter, mutate, mutate_defaults} "
        "(quick: all valid histories of length <= 4, thorough: <= 6), compared with a stack "
        "model after every step; plus random long histories with SystemExit/GeneratorExit and "
        "generator-held blocks, plus blocks whose body is a numpoly operation aborted by an "
        "injected fault at a statement boundary. A history is non-trivial when it has length "
        ">= 2 and contains an exit (normal or by exception); each enumerated history is "
        "distinct by construction."
    ),
    "exhaustive": {
        "quick": "all valid histories of length <= 4 over the 17-symbol alphabet",
        "thorough": "all valid histories of length <= 6 over the 17-symbol alphabet",
    },
    "assumptions": [
        "option state is process-global and single-threaded (no threads in numpoly)",
        "failpoints are never placed inside numpoly/option.py itself",
    ],
    "min_evaluations": {"quick": 10000, "thorough": 1000000},
    "required_counters": ["histories", "fault_injections", "generator_scenarios"],
}
SHARD_TIMEOUT = {"quick": 600, "thorough": 5400}

OPTS = {
    "A": {"retain_names": False},
    "B": {"sort_graded": False, "display_inverse": False},
    "C": {"default_varname": "z", "varname_filter": r".+", "retain_names": True},
    "X": {"retain_coefficients": True},
    "Y": {"sort_reverse": True, "retain_names": False, "display_exponent": "^"},
    "E": {},
    # None is a value like any other (nothing is "left unchanged" because of it)
    "N": {"force_number_suffix": None, "retain_names": None},
}
ALPHABET = [
    "enterA", "enterB", "enterC", "exit", "raiseValueError", "raiseKeyboardInterrupt",
    "setX", "setY", "bad_set", "bad_enter", "mutate", "mutate_defaults", "setA",
    # a block without any option (a pure scope), and a block whose manager object was created
    # before a set_options call and entered afterwards ("previous" = the state at entry)
    "enterE", "enterPB", "setN", "enterN",
]
EXTRA = ["raiseSystemExit", "raiseGeneratorExit", "raiseBaseException"]
BOGUS_NAMES = ["not_an_option", "graded", "display", "sort", "retain_coefficient", "names", "e",
               "bogus_option", "reverse", "varname"]
EXC = {
    "ValueError": ValueError, "KeyboardInterrupt": KeyboardInterrupt,
    "SystemExit": SystemExit, "GeneratorExit": GeneratorExit,
    "BaseException": BaseException,
}


def shards(tier, seed):
    n = 8 if tier == "quick" else 16
    out = [{"kind": "histories", "part": i, "parts": n} for i in range(n)]
    out.append({"kind": "faults"})
    out.append({"kind": "random"})
    return out


def valid(history):
    depth = 0
    for step in history:
        if step.startswith("enter"):
            depth += 1
        elif step == "exit" or step.startswith("raise"):
            if depth == 0:
                return False
            depth -= 1
    return True


class Abort(Exception):
    def __init__(self, pos):
        super().__init__(pos)
        self.pos = pos


class Runner:
    def __init__(self, ctx):
        import numpoly

        self.numpoly = numpoly
        self.ctx = ctx
        self.defaults = copy.deepcopy(numpoly.get_options(defaults=True))
        self.state = None
        self.history = None
        self.bad = None
        self.yielded = []

    def reset(self):
        self.numpoly.set_options(**self.defaults)
        self.state = dict(self.defaults)

    def check(self, pos, what):
        got = self.numpoly.get_options()
        self.ctx.evaluations += 1
        if got != self.state and self.bad is None:
            diff = {k: (got.get(k), self.state.get(k)) for k in set(got) | set(self.state)
                    if got.get(k) != self.state.get(k)}
            self.bad = (pos, what, diff)

    def check_defaults(self, pos):
        got = self.numpoly.get_options(defaults=True)
        self.ctx.evaluations += 1
        if got != self.defaults and self.bad is None:
            self.bad = (pos, "defaults changed", {k: (got.get(k), self.defaults.get(k))
                                                  for k in self.defaults
                                                  if got.get(k) != self.defaults.get(k)})

    def interpret(self, history, pos, depth):
        """Execute steps from pos; returns the next position for the caller."""
        numpoly = self.numpoly
        while pos < len(history):
            step = history[pos]
            if step.startswith("enter"):
                prepared = None
                if step == "enterPB":
                    opts = OPTS["B"]
                    prepared = numpoly.global_options(**opts)
                    numpoly.set_options(**OPTS["X"])
                    self.state.update(OPTS["X"])
                else:
                    opts = OPTS[step[5:]]
                saved = dict(self.state)
                raised = None
                try:
                    with (prepared if prepared is not None else
                          numpoly.global_options(**opts)) as yielded:
                        self.yielded.append(yielded)
                        self.state.update(opts)
                        self.check(pos, step)
                        if yielded != self.state and self.bad is None:
                            self.bad = (pos, "value yielded by global_options differs", {})
                        pos = self.interpret(history, pos + 1, depth + 1)
                except Abort as err:
                    pos = err.pos
                except BaseException as err:  # the exception raised inside the block
                    if type(err) not in EXC_TYPES or not err.args or \
                            not isinstance(err.args[0], int):
                        raise
                    raised = err
                    pos = err.args[0]
                # block left: complete previous option set must be back
                if len(self.yielded) > depth:
                    del self.yielded[depth:]
                self.state = saved
                self.check(pos - 1, "after leaving block")
            elif step == "exit":
                if depth == 0:
                    raise AssertionError("invalid history")
                return pos + 1
            elif step.startswith("raise"):
                raise EXC[step[5:]](pos + 1)
            elif step.startswith("set"):
                opts = OPTS[step[3:]]
                numpoly.set_options(**opts)
                self.state.update(opts)
                self.check(pos, step)
                pos += 1
            elif step == "bad_set":
                # unknown names of every flavour: unrelated, and pieces / abbreviations of known ones
                bogus = BOGUS_NAMES[(pos + len(history)) % len(BOGUS_NAMES)]
                try:
                    numpoly.set_options(**{"retain_names": not self.state["retain_names"],
                                           bogus: 1, "sort_graded": False})
                    if self.bad is None:
                        self.bad = (pos, "set_options accepted an unknown option", {})
                except KeyError:
                    pass
                except Exception as err:  # wrong exception type
                    if self.bad is None:
                        self.bad = (pos, f"set_options raised {type(err).__name__} not KeyError", {})
                self.check(pos, step)
                pos += 1
            elif step == "bad_enter":
                entered = False
                try:
                    bogus = BOGUS_NAMES[(pos + 2 * len(history)) % len(BOGUS_NAMES)]
                    with numpoly.global_options(**{"display_inverse": not self.state["display_inverse"],
                                                   bogus: True}):
                        entered = True
                except KeyError:
                    pass
                except Exception as err:
                    if self.bad is None:
                        self.bad = (pos, f"global_options raised {type(err).__name__} not KeyError", {})
                if entered and self.bad is None:
                    self.bad = (pos, "global_options accepted an unknown option", {})
                self.check(pos, step)
                pos += 1
            elif step == "mutate":
                got = numpoly.get_options()
                got["retain_names"] = "mutated"
                got["sort_graded"] = "mutated"
                got["new_key"] = 1
                if self.yielded:
                    # ... and the dictionary the innermost open block handed out ("as options")
                    inner = self.yielded[-1]
                    if isinstance(inner, dict):
                        inner["sort_reverse"] = "mutated"
                        inner["scratch_key"] = 5
                self.check(pos, step)
                pos += 1
            elif step == "mutate_defaults":
                got = numpoly.get_options(defaults=True)
                got["retain_names"] = "mutated"
                got["default_varname"] = "mutated"
                got.pop("sort_graded", None)
                self.check_defaults(pos)
                self.check(pos, step)
                pos += 1
            else:
                raise AssertionError(step)
        return pos

    def run_history(self, history):
        self.reset()
        self.bad = None
        self.yielded = []
        self.history = history
        self.check(-1, "reset")
        try:
            self.interpret(history, 0, 0)
        except Abort:
            pass
        except (KeyboardInterrupt, SystemExit, GeneratorExit):
            raise
        except Exception as err:  # pylint: disable=broad-except
            # an exception nobody in the history raised: the option machinery itself failed
            # (e.g. while restoring the previous option set)
            if self.bad is None:
                self.bad = (len(history), f"unexpected {type(err).__name__}: {err}", {})
            try:
                self.numpoly.set_options(**self.defaults)
            except Exception:  # pylint: disable=broad-except
                pass
            return self.bad
        self.check(len(history), "end of history")
        self.check_defaults(len(history))
        return self.bad


EXC_TYPES = tuple(EXC.values())


def facts_of_case(case):
    return {"op": case.get("kind", "history")}


def report(ctx, case, bad, kind):
    pos, what, diff = bad
    ctx.violation(
        {"op": kind, "failure": "state", "what": what if len(what) < 60 else what[:60]},
        f"history={case.get('history')} step={pos} {what} (got, model)={diff}",
        case,
    )


def run_histories(spec, ctx, runner):
    maxlen = 4 if spec["tier"] == "quick" else 6
    part, parts = spec["part"], spec["parts"]
    index = 0
    for length in range(1, maxlen + 1):
        for history in itertools.product(ALPHABET, repeat=length):
            if not valid(history):
                continue
            index += 1
            if index % parts != part:
                continue
            case = {"kind": "history", "history": list(history)}
            ctx.case_index += 1
            bad = runner.run_history(history)
            ctx.cases_done += 1
            ctx.count("histories")
            nontrivial = length >= 2 and any(
                s == "exit" or s.startswith("raise") for s in history)
            if nontrivial:
                ctx.distinct_extra += 1
            if index % 50021 == part:
                ctx.sample(case)
            if bad is not None:
                report(ctx, case, bad, "history")
    ctx.sample({"kind": "history", "history": ["enterA", "setX", "raiseKeyboardInterrupt", "mutate"]})


def run_random(spec, ctx, runner):
    rng = random.Random(spec["seed"] * 7919 + 17)
    n = 3000 if spec["tier"] == "quick" else 60000
    alphabet = ALPHABET + EXTRA
    for i in range(n):
        length = rng.randint(5, 14)
        history = []
        depth = 0
        for _ in range(length):
            step = rng.choice(alphabet)
            if (step == "exit" or step.startswith("raise")) and depth == 0:
                step = rng.choice(["enterA", "enterB", "enterC"])
            if step.startswith("enter"):
                depth += 1
            elif step == "exit" or step.startswith("raise"):
                depth -= 1
            history.append(step)
        case = {"kind": "history", "history": history}
        if not ctx.begin(case):
            continue
        bad = runner.run_history(tuple(history))
        ctx.count("random_histories")
        ctx.evaluated(("random", tuple(history)), nontrivial=True, n=0)
        if i < 2:
            ctx.sample(case)
        if bad is not None:
            report(ctx, case, bad, "history")
        ctx.end()
    run_generators(spec, ctx, runner, rng)
    run_decorators(ctx, runner)


def run_decorators(ctx, runner):
    """global_options(...) used as a function decorator (what contextlib's managers offer):
    recursion and mutual calls through one decorator object open nested blocks, each of which
    restores the option set it found."""
    numpoly = runner.numpoly
    for depth in (0, 1, 3):
        for inner_set in ("X", "Y", None):
            for raising in (False, True):
                case = {"kind": "decorator", "depth": depth, "set": inner_set, "raising": raising}
                if not ctx.begin(case):
                    continue
                runner.reset()
                runner.bad = None
                numpoly.set_options(**OPTS["Y"])
                runner.state.update(OPTS["Y"])
                outer = dict(runner.state)
                deco = numpoly.global_options(**OPTS["B"])
                seen = []

                @deco
                def first(n):
                    seen.append(dict(numpoly.get_options()))
                    if inner_set:
                        numpoly.set_options(**OPTS[inner_set])
                    if n:
                        second(n - 1)
                    elif raising:
                        raise ValueError("from the innermost call")

                @deco
                def second(n):
                    first(n)

                try:
                    first(depth)
                except ValueError:
                    pass
                ctx.count("decorator_scenarios")
                ctx.evaluated(("decorator", depth, inner_set, raising), True, n=1)
                expected_inside = dict(outer, **OPTS["B"])
                if seen and seen[0] != expected_inside and runner.bad is None:
                    runner.bad = (0, "options inside the decorated call", {})
                runner.state = outer
                runner.check(1, "after the decorated call returned")
                if runner.bad is not None:
                    report(ctx, case, runner.bad, "decorator")
                ctx.end()


def run_generators(spec, ctx, runner, rng):
    """Blocks held open by generators that are closed / collected / thrown into."""
    numpoly = runner.numpoly

    def holder(opts):
        with numpoly.global_options(**opts):
            yield 1
            yield 2

    n = 200 if spec["tier"] == "quick" else 4000
    for i in range(n):
        case = {"kind": "generators", "n": i, "plan": []}
        if not ctx.begin(case):
            continue
        runner.reset()
        runner.bad = None
        live = []
        for _ in range(rng.randint(1, 4)):
            action = rng.choice(["open", "open", "close", "del", "throw", "set", "exhaust"])
            case["plan"].append(action)
            if action == "open":
                key = rng.choice("ABCXY")
                gen = holder(OPTS[key])
                saved = dict(runner.state)
                next(gen)
                runner.state.update(OPTS[key])
                live.append((gen, saved))
                runner.check(len(case["plan"]), "generator entered block")
            elif action == "set":
                key = rng.choice("XYA")
                numpoly.set_options(**OPTS[key])
                runner.state.update(OPTS[key])
                runner.check(len(case["plan"]), "set_options")
            elif live:
                idx = rng.randrange(len(live)) if rng.random() < 0.5 else len(live) - 1
                gen, saved = live.pop(idx)
                if action == "close":
                    gen.close()
                elif action == "del":
                    del gen
                    gc.collect()
                elif action == "throw":
                    try:
                        gen.throw(ValueError("thrown"))
                    except ValueError:
                        pass
                else:
                    for _ in gen:
                        pass
                gen = None
                runner.state = saved
                runner.check(len(case["plan"]), f"generator block left by {action}")
        while live:
            gen, saved = live.pop()
            gen.close()
            runner.state = saved
            runner.check(99, "generator closed at end")
        ctx.count("generator_scenarios")
        ctx.evaluated(("gen", tuple(case["plan"])), nontrivial=len(case["plan"]) >= 2, n=0)
        if i < 1:
            ctx.sample(case)
        if runner.bad is not None:
            report(ctx, case, runner.bad, "generators")
        ctx.end()


def bodies(numpoly):
    import numpy

    q0, q1, q2 = numpoly.variable(3)
    a = numpoly.polynomial([q0 * q1 + 2, q1 ** 2 - q0, 3 * q2 + q0])
    b = numpoly.polynomial([q0 - 1, q1 + q2, 2 * q0 * q2])
    f = numpoly.polynomial([q0 ** 3 + 2.0 * q0 - 1, q0 ** 2 * q1])
    g = numpoly.polynomial([q0 - 1.0, q0 * q1 + 1])
    return {
        "multiply": lambda: a * b,
        "add": lambda: a + b[::-1],
        "derivative": lambda: numpoly.derivative(a * b + a, "q0"),
        "gradient": lambda: numpoly.gradient(a),
        "divmod": lambda: numpoly.poly_divmod(f, g),
        "align": lambda: numpoly.align_polynomials(a, q0, 3),
        "call": lambda: a(q0=2, q1=q2),
        "str": lambda: str(a * b),
        "less": lambda: a < b,
        "sum": lambda: numpoly.sum(a * b),
        "concatenate": lambda: numpoly.concatenate([a, b]),
        "nested": lambda: _nested(numpoly, a, b),
    }


def _nested(numpoly, a, b):
    with numpoly.global_options(retain_coefficients=True):
        numpoly.set_options(sort_reverse=True)
        return a * b - a * b


def run_faults(spec, ctx, runner):
    from vf.monitors.fault import FaultInjector, InjectedFault

    numpoly = runner.numpoly
    rng = random.Random(spec["seed"] * 104729 + 5)
    injector = FaultInjector()
    todo = bodies(numpoly)
    injector.attach()
    try:
        for name, body in todo.items():
            for key in ("A", "B", "Y"):
                runner.reset()
                total = injector.count(lambda: _block(numpoly, OPTS[key], body))
                if spec["tier"] == "quick":
                    picks = sorted(rng.sample(range(1, total + 1), min(total, 25)))
                else:
                    picks = list(range(1, total + 1))
                    if total > 1500:
                        picks = sorted(rng.sample(picks, 1500))
                for nth in picks:
                    case = {"kind": "fault", "body": name, "opts": key, "nth": nth}
                    if not ctx.begin(case):
                        continue
                    runner.reset()
                    runner.bad = None
                    runner.numpoly.set_options(**OPTS["X"])
                    runner.state.update(OPTS["X"])
                    hit, exc = injector.run(lambda: _block(numpoly, OPTS[key], body), nth)
                    runner.check(nth, f"block body {name} aborted at {hit}")
                    runner.check_defaults(nth)
                    if hit is not None:
                        ctx.count("fault_injections")
                        ctx.evaluated(("fault", name, key, hit[0], hit[2]), nontrivial=True, n=0)
                    if nth == picks[0] and key == "A":
                        ctx.sample({**case, "site": hit})
                    if runner.bad is not None:
                        report(ctx, case, runner.bad, "fault")
                    ctx.end()
        ctx.count("fault_sites", len(injector.sites))
    finally:
        injector.detach()
        runner.reset()


def _block(numpoly, opts, body):
    with numpoly.global_options(**opts):
        body()


def run(spec, ctx):
    runner = Runner(ctx)
    if "replay_case" in spec:
        case = spec["replay_case"]
        if case.get("kind") == "history":
            bad = runner.run_history(tuple(case["history"]))
            ctx.count("histories")
            if bad is not None:
                report(ctx, case, bad, "history")
            return
        spec = dict(spec)
        spec["kind"] = {"fault": "faults", "generators": "random"}.get(case.get("kind"), "random")
    if spec["kind"] == "histories":
        run_histories(spec, ctx, runner)
    elif spec["kind"] == "faults":
        run_faults(spec, ctx, runner)
    else:
        run_random(spec, ctx, runner)
    runner.reset()
