"""C03: returned polynomials are well-formed and regenerate from their attributes.

Cross-cutting invariant monitor (M-WF) on every polynomial that crosses the API
boundary (observed through sys.monitoring on numpoly's code objects) while the
workloads of the other properties run, plus a dedicated constructor workload.
"""
from __future__ import annotations

import importlib
import itertools

import numpy

from vf import catalogue as C
from vf import catrun
from vf import gen as G
from vf import model as M
from vf import oracle as O
from vf.harness import exc_fact, tb_short
from vf.monitors import wellformed as WF

META = {
    "level": "exploration",
    "rule": (
        "M-WF inspects every polynomial array returned across the API boundary (caller frame "
        "outside numpoly; events from sys.monitoring PY_RETURN on all numpoly code objects) while "
        "the workloads of C01 (expression DAGs), C02 (evaluation), C05 (division), C06 "
        "(derivatives), C09-C11 (operation catalogue) and C19 and the repository's own test-suite "
        "(as workload only) run: distinct exponent rows, one "
        "coefficient per row with the array's shape and dtype, >= 1 distinct names matching the "
        "exponent width, raw field names decoding to the same exponents; every 4th returned "
        "polynomial is also rebuilt from (exponents, coefficients, names), from the raw view + "
        "names and from todict() and must come back equal with the same shape, dtype and names. "
        "Dedicated workload: attribute triples with redundant zero terms, unused names, unsorted "
        "rows, duplicate rows and duplicate names through polynomial_from_attributes / "
        "clean_attributes / ndpoly.from_attributes with the four retain-flag combinations given "
        "explicitly and via global options. signature = (producer function, shape class, #terms, "
        "#names) / (triple class, retain flags, route); non-trivial when the result has >= 2 terms "
        "or the triple has a redundant term or name"
    ),
    "assumptions": ["'one coefficient per row' is not asserted on size-0 arrays (their "
                    "coefficients list is empty by construction)",
                    "any exception counts as rejection of duplicates"],
    "min_evaluations": {"quick": 20000, "thorough": 300000},
    "required_counters": ["wf_checked", "wf_rebuilds", "constructor_cases", "api_boundary_calls"],
}
SOURCES = ["c01", "c02", "c05", "c06", "c19", "catalogue", "catalogue"]


class Sink:
    """Context stand-in for borrowed workloads: their own verdicts are not ours."""

    def __init__(self):
        self.case_index = 0
        self.evaluations = 0
        self.counters = {}
        self.distinct_extra = 0

    def evaluated(self, *a, **k):
        pass

    def count(self, *a, **k):
        pass

    def violation(self, *a, **k):
        pass

    def sample(self, *a, **k):
        pass

    def note(self, *a, **k):
        pass

    def inconclusive_case(self, *a, **k):
        pass


def shards(tier, seed):
    n = 8 if tier == "quick" else 16
    out = [{"kind": "ride", "part": i, "n": 1500 if tier == "quick" else 12000} for i in range(n)]
    out += [{"kind": "construct", "part": i, "n": 1500 if tier == "quick" else 15000} for i in range(2)]
    out.append({"kind": "suite", "part": 0})
    return out


def facts_of_case(case):
    return {"op": case.get("source", "construct")}


class WfMonitor:
    def __init__(self, ctx):
        from vf.monitors.api import ApiMonitor

        self.ctx = ctx
        self.current = None
        self.seen = 0
        self.api = ApiMonitor(on_enter=None, on_exit=self.on_exit, boundary_only=True)

    def on_exit(self, name, token, boundary, value, exc):
        if exc is not None or not boundary:
            return
        for poly in WF.polys_in(value):
            self.seen += 1
            ctx = self.ctx
            short = name.replace("numpoly.", "")
            nterms = len(poly.keys) if hasattr(poly, "keys") else 0
            sig = (short, len(poly.shape), min(nterms, 3), len(getattr(poly, "names", ())))
            ctx.evaluated(sig, nterms >= 2)
            ctx.count("wf_checked")
            found = WF.problems(poly)
            kind = "malformed"
            import numpoly
            current = numpoly.get_options()
            shipped = numpoly.get_options(defaults=True)
            naming_default = all(current[k] == shipped[k] for k in
                                 ("default_varname", "varname_filter", "force_number_suffix"))
            if not found and self.seen % 4 == 0 and naming_default:
                # the rebuild routes are stated for default options
                numpoly.set_options(retain_names=shipped["retain_names"],
                                    retain_coefficients=shipped["retain_coefficients"])
                try:
                    ctx.count("wf_rebuilds")
                    found = WF.rebuild_problems(poly)
                finally:
                    numpoly.set_options(**current)
                kind = "rebuild"
            if found:
                ctx.violation({"op": short, "failure": kind, "source": (self.current or {}).get("source")},
                              f"{name} returned a polynomial that is not well-formed: {found[:3]}",
                              self.current)


def borrowed_case(g, cg, source):
    if source == "catalogue":
        name = g.rng.choice(list(C.OPS))
        gen = cg if C.OPS[name].group == "mirror" else g
        case = catrun.gen_case(gen, name)
        return {"source": "catalogue", "case": case}
    module = importlib.import_module(f"vf.props.{source}")
    return {"source": source, "case": module.gen_case(g)}


def run_borrowed(wrapped, sink, step_monitor):
    source, case = wrapped["source"], wrapped["case"]
    if source == "catalogue":
        real = [G.build(s) for s in case["operands"]]
        O.call_guard(catrun.execute, C.OPS[case["op"]], case.get("spelling", "numpoly"), real,
                     case["kw"])
        return
    module = importlib.import_module(f"vf.props.{source}")
    if source == "c05":
        step_monitor.reset()
        try:
            module.run_case(case, sink, step_monitor)
        except BaseException as err:  # NonTermination is C05's business
            if type(err).__name__ != "NonTermination":
                raise
    else:
        module.run_case(case, sink)


def run_ride(spec, ctx):
    from vf.monitors.step import StepMonitor

    monitor = WfMonitor(ctx)
    step = StepMonitor(budget=3000)
    sink = Sink()
    g = G.Gen(spec["seed"] * 1000003 + spec["part"] * 7919 + 3)
    cg = C.ConstGen(0)
    cg.rng = g.rng
    step.attach()
    monitor.api.attach()
    try:
        if "replay_case" in spec:
            wrapped = spec["replay_case"]
            monitor.current = wrapped
            ctx.run_case(wrapped, lambda w: run_borrowed(w, sink, step))
            return
        for i in range(spec["n"]):
            wrapped = borrowed_case(g, cg, SOURCES[i % len(SOURCES)])
            monitor.current = wrapped
            sink.case_index = i
            if i < 2 and spec["part"] == 0:
                ctx.sample({"source": wrapped["source"], "note": "workload case borrowed from that check"})
            ctx.run_case(wrapped, lambda w: run_borrowed(w, sink, step))
        ctx.count("api_boundary_calls", monitor.api.boundary_calls)
        ctx.count("api_functions_seen", len(monitor.api.per_function))
    finally:
        monitor.api.detach()
        step.detach()


# ---------------------------------------------------------------------------
def gen_triple(g):
    rng = g.rng
    nn = rng.choice([1, 2, 3, 4])
    names = rng.sample(["q0", "q1", "q2", "q3", "q10", "q7"], nn)
    names.sort(key=M.numsuffix)
    shape = g.shape(2)
    nrows = rng.choice([1, 2, 3, 4, 5])
    used = [rng.random() < 0.7 for _ in names]
    rows = []
    for _ in range(40):
        if len(rows) >= nrows:
            break
        row = [rng.choice([0, 1, 2, 3]) if u else 0 for u in used]
        if row not in rows:
            rows.append(row)
    rng.shuffle(rows)
    kind = rng.choice(["int", "float"])
    coefs = []
    for _ in rows:
        zero = rng.random() < 0.3
        coefs.append(g.array_data(shape, kind, zero_prob=1.0 if zero else 0.2))
    defect = rng.choice([None, None, None, None, "dup_row", "dup_name"])
    if defect == "dup_row":
        k = rng.randrange(len(rows))
        rows.append(list(rows[k]))
        coefs.append(g.array_data(shape, kind, zero_prob=0.0))
        coefs[k] = g.array_data(shape, kind, zero_prob=0.0)
        # make both copies certainly non-zero
        coefs[k] = G.nested_map(lambda v: v or 1, coefs[k])
        coefs[-1] = G.nested_map(lambda v: v or 2, coefs[-1])
    if defect == "dup_name":
        if nn >= 2:
            names[-1] = names[0]
        else:
            defect = None
    names_as = rng.choice(["tuple", "tuple", "list", "poly"])
    if defect is None and rng.random() < 0.5:
        if nn == 1:
            names_as = "string"          # names="q3": the one indeterminate
        elif names == ["q%d" % i for i in range(nn)]:
            names_as = "prefix"          # names="q": expands to q0 .. q(n-1)
    return {"names": names, "rows": rows, "coefs": G.nested_map(G.jnum, coefs), "kind": kind,
            "shape": list(shape), "defect": defect, "names_as": names_as,
            "readonly": rng.random() < 0.2,
            "retain_coefficients": rng.choice([True, False]), "retain_names": rng.choice([True, False]),
            "how": rng.choice(["explicit", "explicit", "options", "clean", "clean_options", "method",
                               "explicit_vs_global", "explicit_vs_global", "clean_vs_global"])}


def run_triple(case, ctx):
    import numpoly

    names, rows = tuple(case["names"]), case["rows"]
    shape = tuple(case["shape"])
    dtype = G.DTYPE_OF_KIND[case["kind"]]
    coefs = [numpy.array(G.unj_nested(c), dtype=dtype).reshape(shape) for c in case["coefs"]]
    if case.get("readonly"):
        # write-protected (contiguous, native-dtype) coefficient arrays are ordinary input
        for c in coefs:
            c.setflags(write=False)
    rc, rn = case["retain_coefficients"], case["retain_names"]
    how = case["how"]
    facts = {"op": "from_attributes:" + how, "retain_coefficients": rc, "retain_names": rn,
             "defect": case["defect"] or ""}
    zero_rows = [i for i, c in enumerate(coefs) if not numpy.any(c) and any(rows[i])]
    unused = [n for k, n in enumerate(names) if not any(r[k] for r in rows)]
    ctx.evaluated(("triple", bool(zero_rows), bool(unused), case["defect"], rc, rn, how,
                   len(shape)), bool(zero_rows or unused or case["defect"]))
    ctx.count("constructor_cases")
    defaults = numpoly.get_options()

    names_as = case.get("names_as", "tuple")
    facts["names_as"] = names_as
    names_arg = names
    if names_as == "list":
        names_arg = list(names)
    elif names_as == "string":
        names_arg = names[0]
    elif names_as == "prefix":
        names_arg = "q"
    elif names_as == "poly" and len(set(names)) == len(names):
        names_arg = numpoly.symbols(" ".join(names), asarray=True)
    ctx.count("names_as_" + names_as)

    def build():
        exps = numpy.array(rows, dtype=int).reshape(len(rows), len(names))
        if how == "explicit":
            return numpoly.polynomial_from_attributes(exps, coefs, names_arg, retain_coefficients=rc,
                                                      retain_names=rn)
        if how == "method":
            return numpoly.ndpoly.from_attributes(exps, coefs, names_arg, retain_coefficients=rc,
                                                  retain_names=rn)
        if how in ("explicit_vs_global", "clean_vs_global"):
            # the explicit flags must win over whatever the global options say
            with numpoly.global_options(retain_coefficients=not rc, retain_names=not rn):
                if how == "explicit_vs_global":
                    return numpoly.polynomial_from_attributes(exps, coefs, names_arg,
                                                              retain_coefficients=rc, retain_names=rn)
                full = numpoly.polynomial_from_attributes(exps, coefs, names_arg,
                                                          retain_coefficients=True, retain_names=True)
                return numpoly.clean_attributes(full, retain_coefficients=rc, retain_names=rn)
        if how == "options":
            with numpoly.global_options(retain_coefficients=rc, retain_names=rn):
                return numpoly.polynomial_from_attributes(exps, coefs, names_arg)
        full = numpoly.polynomial_from_attributes(exps, coefs, names_arg, retain_coefficients=True,
                                                  retain_names=True)
        if how == "clean":
            return numpoly.clean_attributes(full, retain_coefficients=rc, retain_names=rn)
        with numpoly.global_options(retain_coefficients=rc, retain_names=rn):
            return numpoly.clean_attributes(full)

    try:
        got = build()
        err = None
    except Exception as exc:  # pylint: disable=broad-except
        got, err = None, exc
    finally:
        numpoly.set_options(**defaults)
    if case["defect"]:
        if err is None:
            ctx.violation(dict(facts, failure="accepted"),
                          f"duplicate {'exponent rows' if case['defect'] == 'dup_row' else 'names'} "
                          f"accepted silently: rows={rows} names={names} -> {got!r:.200}", case)
        return
    if err is not None:
        O.report_exception(ctx, facts, err, case, what="constructor")
        return
    want = numpy.empty(shape, dtype=object)
    for idx in numpy.ndindex(*shape):
        want[idx] = M.MP.from_rows(names, rows, [c[idx] for c in coefs])
    problem = O.mismatch(got, want)
    if problem is not None:
        ctx.violation(dict(facts, failure=problem[0]), f"constructor changed the polynomial: "
                                                       f"{problem[1]}", case)
        return
    found = WF.problems(got)
    if found:
        ctx.violation(dict(facts, failure="malformed"), f"constructor result malformed: {found}", case)
        return
    # which terms / names are kept
    by_name = [dict(zip(got.names, (int(e) for e in row))) for row in got.exponents]
    got_rows = {tuple(d.get(n, 0) for n in names) for d in by_name}
    all_rows = {tuple(r) for r in rows}
    if rc:
        want_rows = all_rows
    else:
        want_rows = {tuple(r) for r, c in zip(rows, coefs) if numpy.any(c) or not any(r)}
        if not want_rows:
            want_rows = {tuple(0 for _ in names)}
    if got_rows != want_rows:
        ctx.violation(dict(facts, failure="terms"),
                      f"terms kept {sorted(got_rows)} expected {sorted(want_rows)} "
                      f"(retain_coefficients={rc}); input rows {rows}, all-zero rows {zero_rows}", case)
        return
    if rn:
        want_names = names
    else:
        want_names = tuple(n for k, n in enumerate(names) if any(r[k] for r in want_rows))
        if not want_names:
            want_names = names[:1]
    if tuple(got.names) != tuple(want_names):
        ctx.violation(dict(facts, failure="names"),
                      f"names kept {got.names} expected {want_names} (retain_names={rn}); rows "
                      f"{sorted(want_rows)}", case)


def run_construct(spec, ctx):
    if "replay_case" in spec:
        ctx.run_case(spec["replay_case"], lambda c: run_triple(c, ctx))
        return
    g = G.Gen(spec["seed"] * 1000003 + spec["part"] * 7919 + 33)
    for i in range(spec["n"]):
        case = gen_triple(g)
        if i < 2 and spec["part"] == 0:
            ctx.sample(case)
        ctx.run_case(case, lambda c: run_triple(c, ctx))


def run_suite(spec, ctx, monitor_factory=None):
    """The repository's own tests as an additional workload (never as an oracle)."""
    import io
    import os
    import contextlib

    import pytest

    snapshot = os.environ["NUMPOLY_VERIF_SNAPSHOT"]
    monitor = (monitor_factory or WfMonitor)(ctx)
    monitor.current = {"source": "suite", "note": "repository test-suite as workload"}
    if not ctx.begin(monitor.current):
        return
    monitor.api.attach()
    sink = io.StringIO()
    try:
        with contextlib.redirect_stdout(sink), contextlib.redirect_stderr(sink):
            pytest.main(["-q", "-p", "no:cacheprovider", "--rootdir", snapshot, "-W", "ignore",
                         os.path.join(snapshot, "test")])
    finally:
        monitor.api.detach()
    ctx.count("suite_boundary_calls", monitor.api.boundary_calls)
    ctx.count("api_boundary_calls", monitor.api.boundary_calls)
    ctx.sample(monitor.current)
    ctx.end()


def run(spec, ctx):
    if "replay_case" in spec:
        case = spec["replay_case"]
        if case.get("source") == "suite":
            run_suite(spec, ctx)
        elif "source" in case:
            run_ride(spec, ctx)
        else:
            run_construct(spec, ctx)
        return
    if spec["kind"] == "ride":
        run_ride(spec, ctx)
    elif spec["kind"] == "suite":
        run_suite(spec, ctx)
    else:
        run_construct(spec, ctx)
