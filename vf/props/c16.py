"""C16: str/repr (and sympy export) denote exactly the polynomial."""
from __future__ import annotations

import itertools
import warnings

import numpy

from vf import gen as G
from vf import model as M
from vf import oracle as O
from vf import textread
from vf.harness import exc_fact, tb_short

META = {
    "level": "exploration",
    "rule": (
        "seeded polynomial arrays (0-d..3-d; int / float incl. 1e-05 and 1e+20 / complex incl. "
        "+-1j / bool coefficients; coefficients +-1, negative leading terms; names q0..q12) x all 8 "
        "display_graded/reverse/inverse settings x sign pairs (**,*), (^,*), (^,' ') [repr only], "
        "(^,'') : str(p) and repr(p) are split into elements and parsed by an independent "
        "recursive-descent reader into the exact model, which must equal the element; the printed "
        "monomial sequence must follow the selected monomial order; for 0-d int/float polynomials "
        "polynomial(to_sympy(p)) must equal p. signature = (shape, coefficient kind, display "
        "setting, function); non-trivial when the element has >= 2 terms or a negative / unit "
        "coefficient"
    ),
    "assumptions": ["float text is compared after float() parsing of the printed literal; NaN/inf "
                    "outside the claim", "arrays stay below numpy's summarisation threshold"],
    "min_evaluations": {"quick": 8000, "thorough": 150000},
    "required_counters": ["elements_parsed", "order_checks", "sympy_roundtrips"],
}
SIGNS = [("**", "*"), ("**", "*"), ("^", "*"), ("^", " "), ("^", "")]


def shards(tier, seed):
    n = 8 if tier == "quick" else 16
    per = 1500 if tier == "quick" else 10000
    return [{"part": i, "n": per} for i in range(n)]


def facts_of_case(case):
    return {"op": "display"}


def gen_case(g):
    rng = g.rng
    kind = rng.choice(["int", "int", "float", "float", "complex", "bool"])
    shape = rng.choice([(), (), (), (2,), (3,), (1,), (2, 2), (1, 3), (2, 1, 2)])
    names = rng.choice([["q0"], ["q0", "q1"], ["q0", "q1", "q2"], ["q1", "q12"], ["q2", "q10"],
                        ["q0", "q1", "q2", "q3"], ["q7"]])
    nterms = rng.choice([0, 1, 2, 3, 4, 5, 6])
    poly = g.poly(shape=shape, names=names, kind="int" if kind == "bool" else kind, nterms=nterms,
                  maxexp=rng.choice([2, 3, 12]), via=rng.choice(["attrs", "attrs", "retain"]),
                  allow_views=False)
    if rng.random() < 0.05:
        # many indeterminates with fairly high powers, or a few with very high ones: every term is
        # far from the others in the monomial order, and any packed sort code has to be wide
        # (seed C16-r13-1: int64 sort code that wraps once the degree is added as leading digit)
        if rng.random() < 0.5:
            names = [f"q{i}" for i in range(13)]
            rows = {tuple(rng.randint(20, 27) if rng.random() < 0.85 else 0 for _ in names)
                    for _ in range(rng.randint(2, 5))}
        else:
            names = ["q0", "q1", "q2"]
            rows = {tuple(rng.choice([0, 1, 54000, 53999, 54000, 40000]) for _ in names)
                    for _ in range(rng.randint(2, 5))}
        if shape == ():
            shape = (2,)
        poly["names"], poly["exps"], poly["shape"] = names, [list(r) for r in sorted(rows)], list(shape)
        poly.pop("view", None)
    layout = rng.choice(["C", "C", "T", "F"]) if len(shape) >= 2 else "C"
    pool = {
        "int": [1, -1, 1, -1, 2, -3, 0, 7, 10, -25],
        "float": [1.0, -1.0, 0.5, -2.5, 1e-05, 1e+20, -1e-07, 3.0, 0.0, 123456.789],
        "complex": [1j, -1j, 1 + 0j, -1 + 0j, 1 + 2j, -1 - 2j, -2.5 + 1j, 0j, 0.5j, 3 - 1j],
        "bool": [True, False, True],
    }[kind]

    def rec(dims):
        if not dims:
            return G.jnum(rng.choice(pool))
        return [rec(dims[1:]) for _ in range(dims[0])]
    poly["coefs"] = [rec(list(shape)) for _ in poly["exps"]]
    poly["kind"] = kind
    signs = rng.choice(SIGNS)
    fn = rng.choice(["str", "repr", "repr"]) if signs[1] != " " else "repr"
    options = {"display_graded": rng.random() < 0.5, "display_reverse": rng.random() < 0.5,
               "display_inverse": rng.random() < 0.5, "display_exponent": signs[0],
               "display_multiply": signs[1]}
    if rng.random() < 0.25:
        # "every setting of the display options" includes whatever the other options are set to:
        # the text must denote the polynomial under the retain settings too
        options["retain_names"] = rng.random() < 0.4
        options["retain_coefficients"] = rng.random() < 0.5
    case = {"poly": poly, "options": options, "fn": fn, "layout": layout}
    if shape == () and kind in ("int", "float") and rng.random() < 0.4:
        case["sympy_first"] = True  # to_sympy is called inside the option block before printing
    return case


def flatten(items):
    if isinstance(items, str):
        return [items]
    out = []
    for item in items:
        out.extend(flatten(item))
    return out


def nested_shape(items):
    if isinstance(items, str):
        return ()
    if not items:
        return (0,)
    return (len(items),) + nested_shape(items[0])


def run_case(case, ctx):
    import numpoly

    spec = case["poly"]
    poly = G.build(spec)
    pm = G.model(spec)
    opts = case["options"]
    fn = case["fn"]
    facts = {"op": fn, "coef_kind": spec["kind"], "display_multiply": opts["display_multiply"],
             "display_exponent": opts["display_exponent"], "ndim": len(spec["shape"]),
             "display_graded": opts["display_graded"], "display_reverse": opts["display_reverse"],
             "display_inverse": opts["display_inverse"],
             "retain": f"{opts.get('retain_names', '')},{opts.get('retain_coefficients', '')}"}
    elements = pm.ravel().tolist() if pm.ndim else [pm[()]]
    nontrivial = any(e.nterms() >= 2 or any(v[0] < 0 or abs(v[0]) == 1 for v in e.t.values())
                     for e in elements)
    sig = (tuple(spec["shape"]), spec["kind"], tuple(sorted(opts.items())), fn)
    ctx.evaluated(sig, nontrivial)
    defaults = numpoly.get_options()
    try:
        with warnings.catch_warnings():
            warnings.simplefilter("ignore")
            layout = case.get("layout", "C")
            if layout == "T" and poly.ndim >= 2:
                # the same array held as a non-contiguous view / in Fortran order (ndarray
                # methods, no numpoly function involved): printing follows the logical layout
                poly = numpoly.transpose(poly).T
            elif layout == "F" and poly.ndim >= 2:
                poly = poly.copy(order="F")
            facts["layout"] = layout
            with numpoly.global_options(**opts):
                if case.get("sympy_first"):
                    numpoly.to_sympy(poly)
                    ctx.count("sympy_before_print")
                text = str(poly) if fn == "str" else repr(poly)
    except Exception as err:  # pylint: disable=broad-except
        O.report_exception(ctx, facts, err, case, what=fn)
        return
    finally:
        numpoly.set_options(**defaults)
    body = text
    if fn == "repr":
        if not (text.startswith("polynomial(") and text.endswith(")")):
            facts["failure"] = "format"
            ctx.violation(facts, f"repr is not polynomial(...): {text!r:.200}", case)
            return
        body = text[len("polynomial("):-1]
    try:
        items = textread.split_array(body, ", " if fn == "repr" else " ")
        if nested_shape(items) != tuple(spec["shape"]):
            facts["failure"] = "shape"
            ctx.violation(facts, f"{fn}: text has element layout {nested_shape(items)}, array shape "
                                 f"{tuple(spec['shape'])}: {text!r:.300}", case)
            return
        texts = flatten(items)
    except textread.ReadError as err:
        facts["failure"] = "unreadable"
        ctx.violation(facts, f"{fn}: cannot split {text!r:.300}: {err}", case)
        return
    names = list(spec["names"])
    for idx, (etext, want) in enumerate(zip(texts, elements)):
        ctx.count("elements_parsed")
        try:
            got, monos = textread.read_element(etext, opts["display_exponent"],
                                               opts["display_multiply"])
        except textread.ReadError as err:
            facts["failure"] = "unreadable"
            ctx.violation(facts, f"{fn}: element {idx} text {etext!r} is not ordinary arithmetic: "
                                 f"{err}; element is {want}", case)
            return
        rtol = None if spec["kind"] in ("int", "bool") else 1e-12
        if M.diff_arrays(M.wrap(got), M.wrap(want), rtol=rtol) is not None:
            facts["failure"] = "value"
            ctx.violation(facts, f"{fn}: element {idx} text {etext!r} reads as {got}, element is "
                                 f"{want}", case)
            return
        # order of printed monomials
        if len(monos) >= 2:
            ctx.count("order_checks")
            keys = []
            for mono in monos:
                d = dict(mono)
                row = tuple(d.get(nm, 0) for nm in names)
                keys.append(M.order_key(row, opts["display_graded"], opts["display_reverse"]))
            want_keys = sorted(keys, reverse=opts["display_inverse"])
            if keys != want_keys:
                facts["failure"] = "order"
                ctx.violation(facts, f"{fn}: element {idx} text {etext!r}: printed term order does "
                                     f"not follow the selected monomial order (graded="
                                     f"{opts['display_graded']}, reverse={opts['display_reverse']}, "
                                     f"inverse={opts['display_inverse']})", case)
                return
    # sympy export for single int/float polynomials (default display options)
    if not spec["shape"] and spec["kind"] in ("int", "float") and ctx.case_index % 3 == 0:
        ctx.count("sympy_roundtrips")
        ctx.evaluated(("sympy", spec["kind"], len(spec["exps"]), len(names)), nontrivial)
        try:
            with warnings.catch_warnings():
                warnings.simplefilter("ignore")
                back = numpoly.polynomial(numpoly.to_sympy(poly))
        except Exception as err:  # pylint: disable=broad-except
            O.report_exception(ctx, dict(facts, op="to_sympy"), err, case, what="to_sympy round trip")
            return
        problem = O.mismatch(back, pm, rtol=None if spec["kind"] == "int" else 1e-12)
        if problem is not None:
            ctx.violation(dict(facts, op="to_sympy", failure=problem[0]),
                          f"polynomial(to_sympy(p)) != p: {problem[1]}", case)


def run(spec, ctx):
    if "replay_case" in spec:
        ctx.run_case(spec["replay_case"], lambda c: run_case(c, ctx))
        return
    g = G.Gen(spec["seed"] * 1000003 + spec["part"] * 7919 + 16)
    for i in range(spec["n"]):
        case = gen_case(g)
        if i < 3 and spec["part"] == 0:
            ctx.sample(case)
        ctx.run_case(case, lambda c: run_case(c, ctx))
