"""C06: derivative, gradient and Hessian are the formal partial derivatives."""
from __future__ import annotations

import itertools

import numpy

from vf import gen as G
from vf import model as M
from vf import oracle as O

META = {
    "level": "exploration",
    "rule": (
        "seeded polynomial arrays (C01 classes incl. constants and terms free of the variable) x "
        "designations (name, positional index into the object's own names, indeterminate "
        "polynomial; 1-3 variables successively, both orders for mixed partials) x all 16 settings "
        "of retain_names/retain_coefficients/sort_graded/sort_reverse, for derivative, gradient "
        "and hessian; expected = formal partials in the exact model, shapes (D,)+shape and "
        "(D,D)+shape; linearity and product rule checked on real results. signature = (function, "
        "designation kinds, #vars, option setting, poly class); non-trivial when the polynomial "
        "depends on the variable"
    ),
    "assumptions": ["float/complex coefficients compared with relative tolerance 1e-9"],
    "min_evaluations": {"quick": 6000, "thorough": 100000},
}
OPTION_KEYS = ("retain_names", "retain_coefficients", "sort_graded", "sort_reverse")
SETTINGS = [dict(zip(OPTION_KEYS, bits)) for bits in itertools.product([True, False], repeat=4)]


def shards(tier, seed):
    n = 8 if tier == "quick" else 16
    per = 900 if tier == "quick" else 8000
    return [{"part": i, "n": per} for i in range(n)]


def facts_of_case(case):
    return {"op": case.get("fn", "derivative")}


def gen_case(g):
    rng = g.rng
    fn = rng.choice(["derivative", "derivative", "derivative", "gradient", "hessian", "rules"])
    maxdim = 3 if fn == "derivative" else (2 if fn == "gradient" else 1)
    poly = g.poly(shape=g.shape(maxdim), maxexp=rng.choice([2, 3, 4]),
                  kind=rng.choice(["int", "int", "float", "complex"]))
    if poly["kind"] == "int" and fn != "rules" and rng.random() < 0.15:
        # narrow integer coefficients close to the limits of their type: exponent * coefficient
        # does not fit the coefficient type (the derivative is formal, not modular)
        dtype = rng.choice(["int8", "int16", "uint8"])
        pool = {"int8": [100, -120, 64, 127, -128, 3], "int16": [30000, -32768, 20000, 7],
                "uint8": [200, 255, 128, 5]}[dtype]
        poly["dtype"] = dtype
        poly["coefs"] = [G.nested_map(lambda v: rng.choice(pool) if v else 0, c)
                         for c in poly["coefs"]]
    names = poly["names"]
    nvars = rng.choice([1, 1, 2, 2, 3])
    dvars = []
    for _ in range(nvars):
        idx = rng.randrange(len(names))
        form = rng.choice(["name", "index", "poly", "indeterminant", "variable", "variable_retained",
                           "aligned"])
        dvars.append({"form": form, "name": names[idx], "index": idx})
    if fn == "derivative" and rng.random() < 0.12:
        # high order in one call: the product of the exponents brought down passes 2**32
        hnames = rng.choice([["q0"], ["q0", "q1"], ["q1", "q2"]])
        shape = rng.choice([(), (2,)])
        degs = [rng.randint(12, 18) for _ in hnames]
        rows = [list(degs), [max(d - rng.randint(0, 3), 0) for d in degs], [0] * len(hnames)]
        rows = [list(r) for r in {tuple(r) for r in rows}]
        hkind = rng.choice(["int", "float"])
        pool = [1, 2, -1, 3] if hkind == "int" else [0.5, 1.0, -2.0, 1.5]
        coefs = [G.nested_map(lambda v: rng.choice(pool), g.array_data(shape, "int", zero_prob=0.0))
                 for _ in rows]
        poly = {"k": "poly", "names": hnames, "exps": rows, "coefs": G.nested_map(G.jnum, coefs),
                "kind": hkind, "shape": list(shape), "via": "attrs"}
        if len(hnames) == 1:
            dvars = [{"form": rng.choice(["name", "index"]), "name": hnames[0], "index": 0}
                     for _ in range(rng.randint(9, 12))]
        else:
            dvars = []
            for idx, name in enumerate(hnames):
                dvars += [{"form": rng.choice(["name", "index"]), "name": name, "index": idx}
                          for _ in range(rng.randint(5, 7))]
            rng.shuffle(dvars)
        poly["highorder"] = True
    options = rng.choice(SETTINGS)
    if fn == "derivative" and not poly.get("highorder") and rng.random() < 0.1:
        # indeterminates stored in non-canonical order (q1 before q0), one of them only in a
        # linear term: the first differentiation by the other one makes it unused, and under
        # retain_names=False the intermediate result has other (re-sorted) names than the input
        # when the next variable of the same call is looked up (seed C06-r13-1)
        snames = rng.choice([["q1", "q0"], ["q2", "q0"], ["q2", "q1"], ["q2", "q1", "q0"]])
        shape = rng.choice([(), (2,), (2, 2)])
        width = len(snames)
        rows = [[1] + [0] * (width - 1), [0] * (width - 1) + [rng.randint(2, 4)]]
        if rng.random() < 0.5:
            rows.append([0] * width)
        skind = rng.choice(["int", "float"])
        coefs = [G.nested_map(lambda v: rng.choice([1, 2, -1, 3]),
                              g.array_data(shape, "int", zero_prob=0.0)) for _ in rows]
        poly = {"k": "poly", "names": snames, "exps": rows, "coefs": G.nested_map(G.jnum, coefs),
                "kind": skind, "shape": list(shape), "via": "attrs"}
        dvars = [{"form": rng.choice(["name", "poly", "variable", "indeterminant"]),
                  "name": snames[-1], "index": width - 1} for _ in range(rng.choice([2, 2, 3]))]
        if rng.random() < 0.3:
            dvars.append({"form": "name", "name": snames[0], "index": 0})
        options = dict(options, retain_names=rng.random() < 0.25)
    case = {"fn": fn, "poly": poly, "vars": dvars, "options": options}
    if fn == "rules":
        case["other"] = g.poly(shape=g.compatible_shape(tuple(poly["shape"])), names=names,
                               kind=poly["kind"], maxexp=2, allow_views=False)
    return case


def designate(numpoly, dvar, poly=None):
    """The differentiation variable in the requested form (built under the
    option setting of the case, as a user inside that block would)."""
    if dvar["form"] == "name":
        return dvar["name"]
    if dvar["form"] == "index":
        return dvar["index"]
    if dvar["form"] == "indeterminant" and poly is not None:
        return poly.indeterminants[dvar["index"]]
    if dvar["form"] in ("variable", "variable_retained"):
        number = M.numsuffix(dvar["name"])
        if dvar["name"] == f"q{number}" and number < 12:
            if dvar["form"] == "variable_retained":
                # a designator that was created under retain_coefficients=True (it carries
                # all-zero terms) and is used under whatever setting the case runs in
                with numpoly.global_options(retain_coefficients=True):
                    return numpoly.variable(number + 2, asarray=True)[number]
            return numpoly.variable(number + 1, asarray=True)[number]
    if dvar["form"] == "aligned":
        # ... or one that went through an alignment with other indeterminates
        other = numpoly.symbols("q15") + numpoly.symbols("q14") ** 2
        return numpoly.align_exponents(numpoly.symbols(dvar["name"]), other)[0]
    return numpoly.symbols(dvar["name"])


def model_derivative(arr, names):
    out = arr
    for name in names:
        out = M.m_map(lambda e, n=name: e.derivative(n), out)
    return out


def run_case(case, ctx):
    import numpoly

    spec = case["poly"]
    poly = G.build(spec)
    pm = G.model(spec)
    names = list(spec["names"])
    options = case["options"]
    fn = case["fn"]
    exact = spec["kind"] == "int"
    rtol = None if exact else 1e-9
    optsig = tuple(int(options[k]) for k in OPTION_KEYS)
    facts = {"op": fn, "retain_coefficients": options["retain_coefficients"],
             "retain_names": options["retain_names"], "view": bool(spec.get("view"))}
    defaults = numpoly.get_options()
    try:
        if fn == "derivative":
            dnames = [v["name"] for v in case["vars"]]
            forms = tuple(v["form"] for v in case["vars"])
            depends = any(n in M.all_names(pm) for n in dnames)
            ctx.evaluated((fn, forms, optsig, tuple(spec["shape"]), spec["kind"],
                           len(spec["exps"]) > 1), depends)
            ctx.count("derivative")
            if spec.get("highorder"):
                ctx.count("derivative_high_order")
                facts["high_order"] = True
            expected = model_derivative(pm, dnames)
            with numpoly.global_options(**options):
                args = [designate(numpoly, v, poly) for v in case["vars"]]
                got, err = O.call_guard(numpoly.derivative, poly, *args)
            if err is not None:
                O.report_exception(ctx, facts, err, case, what=f"derivative{tuple(dnames)}")
                return
            problem = O.mismatch(got, expected, rtol=rtol)
            if problem is not None:
                facts["failure"] = problem[0]
                ctx.violation(facts, f"derivative wrt {dnames} ({forms}): {problem[1]}\n"
                                     f"  poly={M.describe(pm, 300)}", case)
                return
            if len(dnames) >= 2:
                # mixed partials commute (on the real library)
                with numpoly.global_options(**options):
                    rev, err = O.call_guard(numpoly.derivative, poly, *list(reversed(dnames)))
                ctx.evaluated(("commute", optsig, tuple(spec["shape"])), depends)
                if err is not None:
                    O.report_exception(ctx, dict(facts, rider="commute"), err, case)
                    return
                problem = O.mismatch(rev, expected, rtol=rtol)
                if problem is not None:
                    facts["failure"] = "commute"
                    ctx.violation(facts, f"mixed partials do not commute: {problem[1]}", case)
        elif fn == "gradient":
            ctx.evaluated((fn, optsig, tuple(spec["shape"]), spec["kind"], len(names)),
                          bool(M.all_names(pm)))
            ctx.count("gradient")
            expected = numpy.empty((len(names),) + tuple(pm.shape), dtype=object)
            for i, name in enumerate(names):
                part = model_derivative(pm, [name])
                expected[i] = part if part.ndim else part[()]
            with numpoly.global_options(**options):
                got, err = O.call_guard(numpoly.gradient, poly)
            if err is not None:
                O.report_exception(ctx, facts, err, case, what="gradient")
                return
            problem = O.mismatch(got, expected, rtol=rtol)
            if problem is not None:
                facts["failure"] = problem[0]
                ctx.violation(facts, f"gradient (names {names}): {problem[1]}\n"
                                     f"  poly={M.describe(pm, 300)}", case)
        elif fn == "hessian":
            ctx.evaluated((fn, optsig, tuple(spec["shape"]), spec["kind"], len(names)),
                          bool(M.all_names(pm)))
            ctx.count("hessian")
            expected = numpy.empty((len(names), len(names)) + tuple(pm.shape), dtype=object)
            for i, n1 in enumerate(names):
                for j, n2 in enumerate(names):
                    part = model_derivative(pm, [n1, n2])
                    expected[i, j] = part if part.ndim else part[()]
            with numpoly.global_options(**options):
                got, err = O.call_guard(numpoly.hessian, poly)
            if err is not None:
                O.report_exception(ctx, facts, err, case, what="hessian")
                return
            problem = O.mismatch(got, expected, rtol=rtol)
            if problem is not None:
                facts["failure"] = problem[0]
                ctx.violation(facts, f"hessian (names {names}): {problem[1]}\n"
                                     f"  poly={M.describe(pm, 300)}", case)
        else:  # linearity and product rule on real results
            other = G.build(case["other"])
            om = G.model(case["other"])
            name = case["vars"][0]["name"]
            ctx.evaluated(("rules", optsig, tuple(spec["shape"]), spec["kind"]), True)
            ctx.count("rules")
            try:
                numpy.broadcast_shapes(pm.shape, om.shape)
            except ValueError:
                return
            # arithmetic under default options (names are kept), derivatives
            # under the option setting of the case
            total, product = poly + other, poly * other
            try:
                with numpoly.global_options(**options):
                    d_sum = numpoly.derivative(total, name)
                    d_prod = numpoly.derivative(product, name)
                    da = numpoly.derivative(poly, name)
                    db = numpoly.derivative(other, name)
                lin = da + db
                leib = da * other + poly * db
            except Exception as err:  # pylint: disable=broad-except
                O.report_exception(ctx, facts, err, case, what="derivative rules")
                return
            for label, lhs, rhs in (("linearity", d_sum, lin), ("product rule", d_prod, leib)):
                problem = O.mismatch(lhs, O.result_model(rhs), rtol=rtol)
                if problem is not None:
                    facts["failure"] = label.split()[0]
                    ctx.violation(facts, f"{label} violated wrt {name}: {problem[1]}", case)
                    return
    finally:
        numpoly.set_options(**defaults)


def run(spec, ctx):
    if "replay_case" in spec:
        ctx.run_case(spec["replay_case"], lambda c: run_case(c, ctx))
        return
    g = G.Gen(spec["seed"] * 1000003 + spec["part"] * 7919 + 6)
    for i in range(spec["n"]):
        case = gen_case(g)
        if i < 2 and spec["part"] == 0:
            ctx.sample(case)
        ctx.run_case(case, lambda c: run_case(c, ctx))
