"""C18: exponent index generation and sorting are exact and platform-independent."""
from __future__ import annotations

import itertools
import random
from fractions import Fraction

import numpy

from vf import model as M
from vf.harness import exc_fact, tb_short

META = {
    "level": "exploration",
    "rule": (
        "glexsort: key matrices with entries 0..2 exhaustively for the sizes listed under "
        "exhaustive_scope plus random samples of larger sizes and random matrices up to 4 x 400 "
        "(entries 0..5), all four graded/reverse settings, compared with a comparison-based "
        "reference sort (Python sorted, stable by specification) -- the returned index array must "
        "be a permutation and must produce exactly the reference column sequence; repeated in "
        "three subprocess configurations selecting numpy's AVX-512, AVX2 and scalar sort kernels "
        "(NPY_DISABLE_CPU_FEATURES). glexindex / bindex / cross_truncate / monomial: all (start, "
        "stop, dimensions <= 4, cross_truncation in {0, .5, .8, 1, 2, inf} incl. (lower, upper) "
        "pairs, graded, reverse, ordering strings) with scalar and per-dimension bounds <= 6, "
        "against brute-force enumeration of the box with exact rational / 60-digit membership. "
        "signature = (function, size class or grid parameters, kernel); non-trivial when the "
        "matrix has a tie in the sort key / the grid has >= 2 indices"
    ),
    "exhaustive": {
        "quick": "glexsort on every key matrix with entries 0..2 of size r x c for r<=3, c<=3 and 1x4, 2x4 (x 4 settings x 3 kernels)",
        "thorough": "glexsort on every key matrix with entries 0..2 of size r x c for r<=3, c<=4 and 1x5, 1x6, 2x5 (x 4 settings x 3 kernels)",
    },
    "assumptions": [
        "only the three sort kernels reachable on this host are explored",
        "start vectors mixing zero and non-zero entries and start > stop are not generated",
        "cross-truncation sums within 1e-9 of the bound without being on it are skipped",
    ],
    "min_evaluations": {"quick": 100000, "thorough": 3000000},
    "required_counters": ["glexsort_calls", "grid_calls", "monomial_calls", "cross_truncate_rows"],
}
SHARD_TIMEOUT = {"quick": 900, "thorough": 7200}
KERNELS = {
    "avx512": {},
    "avx2": {"NPY_DISABLE_CPU_FEATURES": "X86_V4 AVX512_ICL AVX512_SPR"},
    "scalar": {"NPY_DISABLE_CPU_FEATURES": "X86_V4 AVX512_ICL AVX512_SPR X86_V3"},
}
NORMS = [0, 0.5, 0.8, 1, 2, float("inf")]


def shards(tier, seed):
    out = []
    for kernel, env in KERNELS.items():
        parts = 2 if tier == "quick" else 5
        for part in range(parts):
            out.append({"kind": "sort", "kernel": kernel, "env": env, "part": part, "parts": parts})
    ngrid = 4 if tier == "quick" else 10
    for part in range(ngrid):
        kernel = list(KERNELS)[part % 3]
        out.append({"kind": "grid", "kernel": kernel, "env": KERNELS[kernel], "part": part,
                    "n": 700 if tier == "quick" else 6000})
    return out


def facts_of_case(case):
    return {"op": case.get("fn", "?")}


# ---------------------------------------------------------------------------
# glexsort
# ---------------------------------------------------------------------------
def reference_sort(matrix, graded, reverse):
    cols = list(zip(*matrix)) if matrix and isinstance(matrix[0], (list, tuple)) else \
        [(v,) for v in matrix]
    return sorted(range(len(cols)), key=lambda i: M.order_key(cols[i], graded, reverse)), cols


def check_sort(ctx, numpoly, matrix, kernel, one_dim=False, dtype="int64"):
    arr = numpy.array(matrix[0] if one_dim else matrix, dtype=dtype)
    for graded in (False, True):
        for reverse in (False, True):
            ctx.evaluations += 1
            ctx.counters["glexsort_calls"] = ctx.counters.get("glexsort_calls", 0) + 1
            ref, cols = reference_sort(matrix, graded, reverse)
            try:
                got = numpoly.glexsort(arr, graded=graded, reverse=reverse)
                got = [int(i) for i in numpy.asarray(got).ravel()]
            except Exception as err:  # pylint: disable=broad-except
                ctx.violation({"op": "glexsort", "failure": exc_fact(err), "graded": graded,
                               "reverse": reverse, "kernel": kernel},
                              f"glexsort({matrix}, graded={graded}, reverse={reverse}) raised "
                              f"{type(err).__name__}: {err}",
                              {"fn": "glexsort", "matrix": matrix, "one_dim": one_dim, "dtype": dtype})
                return
            if sorted(got) != list(range(len(cols))):
                ctx.violation({"op": "glexsort", "failure": "not_permutation", "graded": graded,
                               "reverse": reverse, "kernel": kernel},
                              f"glexsort({matrix}, graded={graded}, reverse={reverse}) = {got} is not "
                              f"a permutation", {"fn": "glexsort", "matrix": matrix, "one_dim": one_dim, "dtype": dtype})
                return
            if [cols[i] for i in got] != [cols[i] for i in ref]:
                ctx.violation({"op": "glexsort", "failure": "order", "graded": graded, "dtype": dtype,
                               "reverse": reverse, "kernel": kernel, "n_cols": len(cols),
                               "n_rows": len(matrix)},
                              f"glexsort({matrix}, graded={graded}, reverse={reverse}) = {got}; "
                              f"columns {[cols[i] for i in got]} are not in the documented order "
                              f"{[cols[i] for i in ref]} (kernel {kernel})",
                              {"fn": "glexsort", "matrix": matrix, "one_dim": one_dim, "dtype": dtype})
                return


def has_tie(matrix):
    sums = [sum(col) for col in zip(*matrix)]
    return len(set(sums)) < len(sums)


def run_sort(spec, ctx):
    import numpoly

    tier = spec["tier"]
    kernel = spec["kernel"]
    rng = random.Random(spec["seed"] * 7919 + spec["part"] * 31 + 3)
    if tier == "quick":
        sizes = [(r, c) for r in (1, 2, 3) for c in (1, 2, 3)] + [(1, 4), (2, 4)]
        sampled = [((3, 4), 1500), ((3, 6), 1500), ((2, 6), 800)]
        nrandom = 150
    else:
        sizes = [(r, c) for r in (1, 2, 3) for c in (1, 2, 3, 4)] + [(1, 5), (1, 6), (2, 5)]
        sampled = [((3, 5), 40000), ((3, 6), 40000), ((2, 6), 10000), ((4, 5), 10000)]
        nrandom = 1500
    index = 0
    for rows, cols in sizes:
        ctx.begin({"fn": "glexsort", "exhaustive_size": [rows, cols], "kernel": kernel})
        count = 0
        for flat in itertools.product(range(3), repeat=rows * cols):
            index += 1
            if index % spec["parts"] != spec["part"]:
                continue
            matrix = [list(flat[r * cols:(r + 1) * cols]) for r in range(rows)]
            check_sort(ctx, numpoly, matrix, kernel)
            if rows == 1:
                check_sort(ctx, numpoly, matrix, kernel, one_dim=True)
            count += 1
            if has_tie(matrix):
                ctx.distinct_extra += 1
        ctx.count(f"exhaustive_{rows}x{cols}", count)
        ctx.evaluated(("glexsort", rows, cols, kernel), True, n=0)
        ctx.end()
    for (rows, cols), num in sampled:
        ctx.begin({"fn": "glexsort", "sampled_size": [rows, cols], "kernel": kernel})
        for _ in range(num // spec["parts"]):
            matrix = [[rng.randrange(3) for _ in range(cols)] for _ in range(rows)]
            check_sort(ctx, numpoly, matrix, kernel)
        ctx.evaluated(("glexsort-sampled", rows, cols, kernel), True, n=0)
        ctx.end()
    for i in range(nrandom):
        rows = rng.choice([1, 2, 3, 4])
        cols = rng.choice([5, 8, 16, 17, 18, 33, 64, 100, 257, 400])
        top = rng.choice([1, 2, 5])
        matrix = [[rng.randint(0, top) for _ in range(cols)] for _ in range(rows)]
        case = {"fn": "glexsort", "matrix": matrix, "kernel": kernel}
        if i == 0:
            ctx.sample({"fn": "glexsort", "matrix": [row[:8] for row in matrix], "kernel": kernel,
                        "note": "first 8 columns shown"})
        if not ctx.begin(case):
            continue
        check_sort(ctx, numpoly, matrix, kernel)
        ctx.evaluated(("glexsort-random", rows, cols, top, kernel), True, n=0)
        ctx.end()
    # keys in every integer dtype an exponent table may come in, with values close to the limits
    # of the type (the grade of a column is its exact sum, not a sum modulo 2**bits)
    limits = {"uint8": 255, "int8": 127, "uint16": 65535, "int16": 32767, "uint32": 2 ** 32 - 1,
              "int32": 2 ** 31 - 1, "int64": 2 ** 40, "uint64": 2 ** 40}
    for i in range(nrandom):
        dtype = rng.choice(sorted(limits))
        top = limits[dtype]
        rows = rng.choice([2, 3, 4])
        cols = rng.choice([2, 3, 5, 8, 17])
        pool = [0, 1, top, top - 1, top // 2, top // 2 + 1, top // 3, 2]
        matrix = [[rng.choice(pool) for _ in range(cols)] for _ in range(rows)]
        case = {"fn": "glexsort", "matrix": matrix, "kernel": kernel, "dtype": dtype}
        if not ctx.begin(case):
            continue
        check_sort(ctx, numpoly, matrix, kernel, dtype=dtype)
        ctx.count("glexsort_narrow_keys")
        ctx.evaluated(("glexsort-dtype", rows, cols, dtype, kernel), True, n=0)
        ctx.end()
    ctx.sample({"fn": "glexsort", "matrix": [[0, 1, 2, 0], [2, 1, 0, 1]], "kernel": kernel})


# ---------------------------------------------------------------------------
# glexindex / bindex / cross_truncate / monomial
# ---------------------------------------------------------------------------
class Ambiguous(Exception):
    pass


def inside(a, bound, norm):
    """T(a; bound, norm) of the design: exact membership in the truncated box."""
    if any(b < 0 for b in bound):
        return False
    keep = [(x, b) for x, b in zip(a, bound) if b != 0]
    if any(x != 0 for x, b in zip(a, bound) if b == 0):
        return False
    if not keep:
        return True
    if norm == 0:
        return sum(1 for x, _ in keep if x > 0) <= 1 and all(x <= b for x, b in keep)
    if norm == float("inf"):
        return all(x <= b for x, b in keep)
    if norm in (1, 2):
        total = sum(Fraction(x, b) ** norm for x, b in keep)
        return total <= 1
    import mpmath

    mpmath.mp.dps = 60
    total = mpmath.mpf(0)
    for x, b in keep:
        if x:
            total += (mpmath.mpf(x) / b) ** mpmath.mpf(str(norm))
    gap = abs(total - 1)
    if gap < mpmath.mpf("1e-40"):
        return True
    if gap < mpmath.mpf("1e-9"):
        raise Ambiguous()
    return total < 1


def expected_indices(start, stop, dims, trunc, graded, reverse):
    start_v = [start] * dims if not isinstance(start, list) else start
    stop_v = [stop] * dims if not isinstance(stop, list) else stop
    lower_q, upper_q = (trunc if isinstance(trunc, list) else [trunc, trunc])
    bound = max(stop_v)
    members = []
    if dims == 1:
        lo = max(start_v[0], 0)
        members = [(v,) for v in range(bound) if lo <= v < stop_v[0]]
    else:
        lower_b = [max(s, 0) - 1 for s in start_v]
        upper_b = [s - 1 for s in stop_v]
        for tup in itertools.product(range(max(bound, 0)), repeat=dims):
            up = inside(tup, upper_b, upper_q)
            low = inside(tup, lower_b, lower_q)
            if up != low and up:
                members.append(tup)
            elif low and not up:
                raise Ambiguous()  # lower band outside the upper band: "between" undefined
    members.sort(key=lambda row: M.order_key(row, graded, reverse))
    return members


def gen_grid(rng):
    dims = rng.choice([1, 2, 2, 3, 3, 4])
    vector = rng.random() < 0.45
    if vector:
        stop = [rng.randint(1, 5 if dims < 4 else 4) for _ in range(dims)]
        if rng.random() < 0.5:
            start = 0
        elif rng.random() < 0.5:
            start = [rng.randint(1, s) for s in stop]
        else:
            start = rng.randint(0, min(stop))
    elif rng.random() < 0.2 and dims > 1:
        # vector start, scalar stop: the start alone carries the number of dimensions
        stop = rng.randint(2, 5 if dims < 4 else 4)
        start = [rng.randint(0, stop) for _ in range(dims)]
    else:
        stop = rng.randint(1, 6 if dims < 4 else 5)
        start = rng.choice([0, 0, 1, 2, rng.randint(0, stop)])
        start = min(start, stop)
    roll = rng.random()
    if roll < 0.75:
        trunc = rng.choice(NORMS)
    else:
        trunc = [rng.choice(NORMS), rng.choice(NORMS)]
    fn = rng.choice(["glexindex", "glexindex", "bindex", "monomial", "cross_truncate"])
    case = {"fn": fn, "start": start, "stop": stop, "dims": dims, "trunc": trunc,
            "graded": rng.random() < 0.5, "reverse": rng.random() < 0.5}
    if fn == "bindex":
        case["ordering"] = rng.choice(["G", "GR", "GI", "GRI", "R", "I", "", "RI"])
        case["trunc"] = rng.choice(NORMS)
    if fn == "cross_truncate":
        case["bound"] = [rng.randint(0, 5) for _ in range(dims)] if rng.random() < 0.7 \
            else rng.randint(0, 5)
        case["norm"] = rng.choice(NORMS)
    if rng.random() < 0.15:
        case["stop_only"] = True
    if rng.random() < 0.3:
        case["positional"] = True
    has_vector = isinstance(stop, list) or (isinstance(start, list) and not case.get("stop_only"))
    spellings = ["int", "int"]
    if has_vector:
        # the vector bound alone determines the number of dimensions
        spellings += ["default", "one"] + (["none"] if fn == "monomial" else [])
    if fn == "monomial":
        spellings += ["names"] + (["str"] if dims == 1 else [])
    case["dims_spelling"] = rng.choice(spellings)
    if case["dims_spelling"] == "names":
        case["names"] = rng.choice([["q%d" % (2 * i + 2) for i in range(dims)],
                                    ["q%d" % (3 * i + 1) for i in range(dims)],
                                    ["q%d" % (i + 9) for i in range(dims)]])
    if rng.random() < 0.35:
        # bounds spelled as numpy scalars / arrays (as taken from poly.exponents: uint32)
        case["bound_dtype"] = rng.choice(["uint8", "uint32", "int64", "uint64", "int32"])
    return case


def trunc_arg(trunc):
    if isinstance(trunc, list):
        return [float(t) for t in trunc]
    return float(trunc)


def run_grid_case(case, ctx, kernel):
    import numpoly

    fn = case["fn"]
    dims = case["dims"]
    facts = {"op": fn, "dims": dims, "kernel": kernel, "graded": case["graded"],
             "reverse": case["reverse"], "trunc": str(case["trunc"])}
    if fn == "cross_truncate":
        bound = case["bound"]
        bound_v = bound if isinstance(bound, list) else [bound] * dims
        rows = list(itertools.product(range(max(bound_v) + 2), repeat=dims))
        try:
            want = [inside(r, bound_v, case["norm"]) for r in rows]
        except Ambiguous:
            ctx.count("skipped_ambiguous")
            return
        ctx.evaluated((fn, dims, str(case["norm"]), isinstance(bound, list)), len(rows) >= 2,
                      n=len(rows))
        ctx.count("cross_truncate_rows", len(rows))
        try:
            # the index grid in integer and floating types; one grid object is used for two calls
            # (another norm first) and must come back unchanged
            grid_dtype = ["int64", "float64", "uint8", "int32"][(len(rows) + dims) % 4]
            grid = numpy.array(rows, dtype=grid_dtype).reshape(-1, dims)
            keep = grid.copy()
            numpoly.cross_truncate(grid, bound, 2.0 if float(case["norm"]) != 2.0 else 1.0)
            got = numpoly.cross_truncate(grid, bound, float(case["norm"]))
            got = [bool(v) for v in got]
            ctx.count("cross_truncate_grid_" + grid_dtype)
            if not numpy.array_equal(grid, keep):
                ctx.violation(dict(facts, failure="argument_modified", grid_dtype=grid_dtype),
                              f"cross_truncate changed its {grid_dtype} index argument: "
                              f"{grid[:3].tolist()} (was {keep[:3].tolist()})", case)
                return
        except Exception as err:  # pylint: disable=broad-except
            ctx.violation(dict(facts, failure=exc_fact(err)), f"cross_truncate raised {err}\n{tb_short(err)}", case)
            return
        if got != want:
            bad = [(r, g, w) for r, g, w in zip(rows, got, want) if g != w][:4]
            ctx.violation(dict(facts, failure="membership"),
                          f"cross_truncate(bound={bound}, norm={case['norm']}): (index, got, exact) "
                          f"{bad}", case)
        return
    graded, reverse = case["graded"], case["reverse"]
    start, stop = case["start"], case["stop"]
    if fn == "bindex":
        ordering = case["ordering"].upper()
        graded, reverse = "G" in ordering, "R" not in ordering
    if case.get("stop_only"):
        start = 0
    try:
        want = expected_indices(start, stop, dims, case["trunc"], graded, reverse)
        if case.get("bound_dtype"):
            dtype = case["bound_dtype"]
            start = numpy.array(start, dtype=dtype) if isinstance(start, list) else \
                numpy.dtype(dtype).type(start)
            stop = numpy.array(stop, dtype=dtype) if isinstance(stop, list) else \
                numpy.dtype(dtype).type(stop)
            facts["bound_dtype"] = dtype
    except Ambiguous:
        ctx.count("skipped_ambiguous")
        return
    if fn == "bindex" and "I" in case["ordering"].upper():
        want = want[::-1]
    ctx.evaluated((fn, dims, str(case["trunc"]), isinstance(stop, list), isinstance(start, list),
                   graded, reverse, kernel), len(want) >= 2)
    ctx.count("grid_calls")
    spelling = case.get("dims_spelling", "int")
    facts["dims_spelling"] = spelling
    dimkw = {"int": {"dimensions": dims}, "default": {}, "one": {"dimensions": 1},
             "none": {"dimensions": None}, "names": {"dimensions": tuple(case.get("names", ()))},
             "str": {"dimensions": "q7"}}[spelling]
    want_names = {"names": list(case.get("names", ())), "str": ["q7"]}.get(
        spelling, ["q%d" % i for i in range(dims)])
    ctx.count("dims_spelling_" + spelling)
    try:
        if fn == "glexindex":
            if case.get("stop_only"):
                got = numpoly.glexindex(stop, cross_truncation=trunc_arg(case["trunc"]), **dimkw,
                                        graded=graded, reverse=reverse)
            elif case.get("positional") and "dimensions" in dimkw and \
                    isinstance(dimkw["dimensions"], int):
                # the documented parameter order:
                # glexindex(start, stop, dimensions, cross_truncation, graded, reverse)
                ctx.count("glexindex_positional")
                got = numpoly.glexindex(start, stop, dimkw["dimensions"],
                                        trunc_arg(case["trunc"]), graded, reverse)
            else:
                got = numpoly.glexindex(start, stop, **dimkw,
                                        cross_truncation=trunc_arg(case["trunc"]), graded=graded,
                                        reverse=reverse)
        elif fn == "bindex":
            got = numpoly.bindex(start, stop, **dimkw, ordering=case["ordering"],
                                 cross_truncation=trunc_arg(case["trunc"]))
        else:
            ctx.count("monomial_calls")
            poly = numpoly.monomial(start, stop, **dimkw,
                                    cross_truncation=trunc_arg(case["trunc"]), graded=graded,
                                    reverse=reverse)
            if tuple(poly.shape) != (len(want),):
                ctx.violation(dict(facts, failure="shape"),
                              f"monomial(...) has shape {poly.shape}, expected ({len(want)},)", case)
                return
            got = []
            arr = M.abstract(poly)
            names = list(poly.names)
            if names != want_names:
                ctx.violation(dict(facts, failure="names"), f"monomial names {names} for {dims} "
                              f"dimensions, expected {want_names}", case)
                return
            for i in range(len(want)):
                elem = arr[i]
                if elem.nterms() != 1 or list(elem.t.values())[0] != M.ONE:
                    ctx.violation(dict(facts, failure="value"),
                                  f"monomial(...)[{i}] = {elem} is not a single monomial", case)
                    return
                got.append(list(elem.rows(names))[0])
        got = [tuple(int(v) for v in row) for row in numpy.asarray(got).reshape(-1, dims)] \
            if fn != "monomial" else got
    except Exception as err:  # pylint: disable=broad-except
        ctx.violation(dict(facts, failure=exc_fact(err)),
                      f"{fn}({case}) raised {type(err).__name__}: {err}\n{tb_short(err)}", case)
        return
    if len(set(got)) != len(got):
        ctx.violation(dict(facts, failure="duplicates"), f"{fn}: duplicate indices in {got[:20]}", case)
        return
    if set(got) != set(want):
        ctx.violation(dict(facts, failure="membership"),
                      f"{fn}(start={start}, stop={stop}, dims={dims}, trunc={case['trunc']}): "
                      f"extra {sorted(set(got) - set(want))[:6]} missing "
                      f"{sorted(set(want) - set(got))[:6]}", case)
        return
    if got != want:
        ctx.violation(dict(facts, failure="order"),
                      f"{fn}(graded={graded}, reverse={reverse}): order {got[:10]} != {want[:10]}",
                      case)
        return
    if fn in ("glexindex", "bindex") and not case.get("stop_only") and len(want):
        # a returned index array is the caller's: writing into it must not change what the
        # same call returns afterwards (no shared / cached result arrays)
        ctx.count("grid_repeat_after_write")
        try:
            call = (lambda: numpoly.glexindex(start, stop, **dimkw,
                                              cross_truncation=trunc_arg(case["trunc"]),
                                              graded=graded, reverse=reverse)) if fn == "glexindex" \
                else (lambda: numpoly.bindex(start, stop, **dimkw, ordering=case["ordering"],
                                             cross_truncation=trunc_arg(case["trunc"])))
            first = call()
            if isinstance(first, numpy.ndarray) and first.flags.writeable:
                first += 7
            again = [tuple(int(v) for v in row) for row in numpy.asarray(call()).reshape(-1, dims)]
        except Exception as err:  # pylint: disable=broad-except
            ctx.violation(dict(facts, failure=exc_fact(err), step="repeat"),
                          f"{fn}: second call after writing into the first result raised "
                          f"{type(err).__name__}: {err}", case)
            return
        if again != want:
            ctx.violation(dict(facts, failure="aliased_result", step="repeat"),
                          f"{fn}: after writing into a returned array the same call returns "
                          f"{again[:6]} instead of {want[:6]}", case)


def run_grid(spec, ctx):
    rng = random.Random(spec["seed"] * 7919 + spec["part"] * 131 + 18)
    if spec["part"] == 0:
        # history: the same large grid (more than 1000 candidate tuples) asked for again in one
        # process under a growing and then shrinking cross-truncation norm - each answer depends
        # on its own arguments only (seed C18-r13-1: grid memo keyed without the norm)
        for stop, dims in ((6, 4), (11, 3), (7, 4)):
            for trunc in (0.5, 1, float("inf"), 0.8, 2, 0.5):
                case = {"fn": rng.choice(["glexindex", "glexindex", "bindex"]), "start": 0,
                        "stop": stop, "dims": dims, "trunc": trunc, "graded": True,
                        "reverse": rng.random() < 0.5, "dims_spelling": "int", "history": True}
                if case["fn"] == "bindex":
                    case["ordering"] = rng.choice(["G", "GR", ""])
                ctx.count("grid_history_cases")
                ctx.run_case(case, lambda c: run_grid_case(c, ctx, spec["kernel"]))
    for i in range(spec["n"]):
        case = gen_grid(rng)
        if i < 2 and spec["part"] == 0:
            ctx.sample(case)
        ctx.run_case(case, lambda c: run_grid_case(c, ctx, spec["kernel"]))


def run(spec, ctx):
    import numpoly

    if "replay_case" in spec:
        case = spec["replay_case"]
        kernel = spec.get("kernel", "avx512")
        if case.get("fn") == "glexsort" and "matrix" in case:
            if ctx.begin(case):
                check_sort(ctx, numpoly, case["matrix"], kernel, case.get("one_dim", False), dtype=case.get("dtype", "int64"))
                ctx.end()
        elif case.get("fn") == "glexsort":
            run_sort(spec, ctx)
        else:
            ctx.run_case(case, lambda c: run_grid_case(c, ctx, kernel))
        return
    ctx.note(f"NPY_DISABLE_CPU_FEATURES={spec.get('env', {}).get('NPY_DISABLE_CPU_FEATURES', '')!r} "
             f"for kernel {spec['kernel']}")
    if spec["kind"] == "sort":
        run_sort(spec, ctx)
    else:
        run_grid(spec, ctx)
