"""Generic executor for catalogue-based checks (C09, C10 and riders)."""
from __future__ import annotations

import numpy

from . import catalogue as C
from . import gen as G
from . import model as M
from . import oracle as O


class NumpyNS:
    """numpy namespace that also resolves linalg names (det)."""

    def __getattr__(self, name):
        if hasattr(numpy, name):
            return getattr(numpy, name)
        return getattr(numpy.linalg, name)


NUMPY_NS = NumpyNS()


def spellings_of(op):
    out = ["numpoly"]
    if op.name in ("getitem", "ravel", "flatten", "T", "flat", "iter", "copy", "add.reduce",
                   "multiply.reduce", "add.accumulate"):
        return ["method"]
    if op.name in ("full", "ones", "zeros"):  # no polynomial argument numpy could dispatch on
        return ["numpoly"]
    out.append("numpy")
    if op.method is not None:
        out.append("method")
    return out


def execute(op, spelling, operands, kw):
    import numpoly

    if spelling == "numpoly":
        return op.call(numpoly, operands, kw)
    if spelling == "numpy":
        return op.call(NUMPY_NS, operands, kw)
    if spelling == "method":
        if op.method is not None:
            return op.method(operands, kw)
        return op.call(numpoly, operands, kw)
    raise ValueError(spelling)


def as_list(op, value):
    if op.result == "polylist":
        return list(value)
    return [value]


def case_facts(op, case, spelling):
    feats = [G.spec_features(s) for s in case["operands"]]
    if not feats:
        return {"op": op.name, "spelling": spelling, "max_ndim": 0, "min_ndim": 0, "first_size": 0,
                "shapes": "", "view": False, "kinds": "", "kw": ",".join(sorted(case["kw"]))}
    return {
        "op": op.name, "spelling": spelling,
        "max_ndim": max(len(f["shape"]) for f in feats),
        "min_ndim": min(len(f["shape"]) for f in feats),
        "first_size": int(numpy.prod(feats[0]["shape"] or (1,))) if feats[0]["shape"] != () else 1,
        "shapes": "|".join(str(tuple(f["shape"])) for f in feats),
        "view": any(f.get("view") for f in feats),
        "kinds": "|".join(f["kind"] for f in feats),
        "kw": ",".join(sorted(k for k in case["kw"] if k != "seq_as_array")),
        "seq_as_array": bool(case["kw"].get("seq_as_array")),
        "zero_term": any(f.get("zero_term") for f in feats),
        "dtypes": "|".join(str(s.get("dtype", "")) if s["k"] == "poly" else "" for s in case["operands"]),
    }


def signature(op, case, spelling):
    feats = [G.spec_features(s) for s in case["operands"]]
    kwsig = []
    for key in sorted(case["kw"]):
        val = case["kw"][key]
        if isinstance(val, (int, bool)) or val is None:
            kwsig.append((key, val))
        elif isinstance(val, list) and all(isinstance(v, int) for v in val):
            kwsig.append((key, tuple(val)))
        else:
            kwsig.append((key, type(val).__name__))
    return (op.name, spelling, tuple(tuple(f["shape"]) for f in feats),
            tuple(f["kind"] + (":" + s["dtype"] if s["k"] == "poly" and s.get("dtype") else "")
                  for f, s in zip(feats, case["operands"])), tuple(kwsig),
            tuple(f.get("view", "") for f in feats), tuple(bool(f.get("zero_term")) for f in feats))


def same_dtype(a, b):
    """Equal coefficient types; byte order is storage, not type."""
    a, b = numpy.dtype(a), numpy.dtype(b)
    return a == b or a.newbyteorder("=") == b.newbyteorder("=")


def run_case(case, ctx, check_meta=True, rtol_float=1e-9):
    """Execute one catalogue case and compare with the model. Returns got or None."""
    import numpoly

    op = C.OPS[case["op"]]
    spelling = case.get("spelling", "numpoly")
    specs = case["operands"]
    kw = case["kw"]
    real = [G.build(s) for s in specs]
    mods = [G.model(s) for s in specs]
    facts = case_facts(op, case, spelling)
    try:
        expected = op.model(mods, kw)
    except Exception as err:  # invalid arguments for numpy itself: not a case
        ctx.count("skipped_invalid_arguments")
        ctx.note(f"generator produced arguments numpy rejects for {op.name}: {type(err).__name__}")
        return None
    expected = [M.wrap(e) for e in as_list(op, expected)]
    ctx.count(f"op_{op.name}")
    ctx.count(f"spelling_{spelling}")
    size = max([int(numpy.prod(G.spec_features(s)["shape"] or (1,))) for s in specs])
    nontrivial = size >= 2
    ctx.evaluated(signature(op, case, spelling), nontrivial)
    got, err = O.call_guard(execute, op, spelling, real, kw)
    if err is not None:
        O.report_exception(ctx, facts, err, case, what=f"{op.name}/{spelling}")
        return None
    try:
        got_list = as_list(op, got)
    except TypeError:
        facts["failure"] = "type"
        ctx.violation(facts, f"{op.name}/{spelling}: result is not a sequence: {type(got)}", case)
        return None
    if len(got_list) != len(expected):
        facts["failure"] = "shape"
        ctx.violation(facts, f"{op.name}/{spelling}: {len(got_list)} results, expected "
                             f"{len(expected)}", case)
        return None
    exact = all(G.spec_features(s)["coef"] in ("int", "int64", "bool") for s in specs) \
        and not op.tol
    for n, (g, e) in enumerate(zip(got_list, expected)):
        problem = O.mismatch(g, e, rtol=None if exact else rtol_float)
        if problem is not None:
            facts["failure"] = problem[0]
            ctx.violation(
                facts,
                f"{op.name}/{spelling} kw={kw} result[{n}]: {problem[1]}\n"
                f"  operands: {[M.describe(m, 200) for m in mods]}", case)
            return None
    if check_meta:
        polys = [r for r, s in zip(real, specs) if s["k"] == "poly"]
        for n, g in enumerate(got_list):
            if not isinstance(g, numpoly.ndpoly):
                facts["failure"] = "type"
                ctx.violation(facts, f"{op.name}/{spelling}: result[{n}] is {type(g).__name__}, "
                                     "not a polynomial array", case)
                return None
            if op.name == "broadcast_arrays":
                src = real[n]
                if isinstance(src, numpoly.ndpoly) and (
                        tuple(g.names) != tuple(src.names) or not same_dtype(g.dtype, src.dtype)):
                    facts["failure"] = "names"
                    ctx.violation(facts, f"broadcast_arrays: result[{n}] names/dtype "
                                         f"{g.names}/{g.dtype} != {src.names}/{src.dtype}", case)
                    return None
            elif op.group in ("shape", "split", "index") and len(polys) == 1:
                if tuple(g.names) != tuple(polys[0].names):
                    facts["failure"] = "names"
                    ctx.violation(facts, f"{op.name}/{spelling}: names {g.names} != "
                                         f"{polys[0].names}", case)
                    return None
                if not same_dtype(g.dtype, polys[0].dtype):
                    facts["failure"] = "dtype"
                    ctx.violation(facts, f"{op.name}/{spelling}: dtype {g.dtype} != "
                                         f"{polys[0].dtype}", case)
                    return None
            elif op.group in ("join", "select") and polys:
                want = numpy.result_type(*[numpy.asarray(r).dtype if not isinstance(r, numpoly.ndpoly)
                                           else r.dtype for r in real
                                           if isinstance(r, (numpy.ndarray, numpoly.ndpoly))])
                needed = set()
                for p in polys:
                    needed |= set(p.names)
                if not M.all_names(expected[n]) <= set(g.names):
                    facts["failure"] = "names"
                    ctx.violation(facts, f"{op.name}/{spelling}: names {g.names} vs operand names "
                                         f"{sorted(needed)}", case)
                    return None
                if all(isinstance(r, (numpy.ndarray, numpoly.ndpoly)) for r in real) and \
                        not same_dtype(g.dtype, want):
                    facts["failure"] = "dtype"
                    ctx.violation(facts, f"{op.name}/{spelling}: dtype {g.dtype} != {want}", case)
                    return None
    return got


def gen_case(g, name):
    op = C.OPS[name]
    case = op.gen(g)
    case["op"] = name
    case["spelling"] = g.rng.choice(spellings_of(op))
    return case


class NarrowGen(G.Gen):
    """Operands that sometimes come in narrower coefficient dtypes (no arithmetic groups)."""

    def poly(self, *args, **kw):
        spec = super().poly(*args, **kw)
        if "dtype" not in spec and self.rng.random() < 0.12:
            kind = spec["kind"]
            if kind == "int":
                spec["dtype"] = self.rng.choice(["int32", "int16", "int8"])
            elif kind == "float":
                spec["dtype"] = self.rng.choice(["float32", "float16"])
            elif kind == "complex":
                spec["dtype"] = "complex64"
        return spec


def run_group(spec, ctx, groups, per_op, check_meta=True, gen_cls=G.Gen):
    if "replay_case" in spec:
        ctx.run_case(spec["replay_case"], lambda c: run_case(c, ctx, check_meta))
        return
    names = C.names_in_group(groups)
    g = gen_cls(spec["seed"] * 1000003 + spec["part"] * 7919 + 11)
    for i in range(per_op):
        for name in names:
            case = gen_case(g, name)
            if i == 0 and spec["part"] == 0 and name in names[:4]:
                ctx.sample(case)
            ctx.run_case(case, lambda c: run_case(c, ctx, check_meta))
