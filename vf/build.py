"""Snapshot of the repository's working tree + native rebuild (plain / asan)."""
from __future__ import annotations

import hashlib
import os
import shutil
import subprocess
import sys
import sysconfig
import tempfile

VERIF = os.path.dirname(os.path.dirname(os.path.abspath(__file__)))
PYTHON = "/venv/bin/python"
EXT_SUFFIX = ".cpython-312-x86_64-linux-gnu.so"
MODULES = ("cvalues", "cmultiply", "cfrom_attributes")
ASAN_RT = "/usr/lib/llvm-14/lib/clang/14.0.6/lib/linux/libclang_rt.asan-x86_64.so"


class BuildInconclusive(Exception):
    pass


def _includes():
    py_inc = sysconfig.get_paths()["include"]
    if not os.path.exists(os.path.join(py_inc, "Python.h")):
        py_inc = "/root/.pyenv/versions/3.12.1/include/python3.12"
    import numpy

    return [py_inc, numpy.get_include()]


def _compile(cfile, out, flavour):
    incs = []
    for inc in _includes():
        incs += ["-I", inc]
    if flavour == "asan":
        cmd = [
            "clang", "-shared", "-fPIC", "-O1", "-g", "-fno-omit-frame-pointer",
            "-fsanitize=address,undefined", "-fsanitize-recover=all",
            "-Wno-everything",
        ]
    else:
        cmd = ["gcc", "-shared", "-fPIC", "-O2", "-w"]
    cmd += incs + [cfile, "-o", out]
    res = subprocess.run(cmd, capture_output=True, text=True)
    if res.returncode != 0:
        raise BuildInconclusive(f"cannot build {cfile}: {res.stderr[-500:]}")


def _cached_ext(cfile, flavour):
    with open(cfile, "rb") as handle:
        digest = hashlib.sha256(handle.read() + flavour.encode()).hexdigest()[:20]
    cache = os.path.join(VERIF, ".cache", "ext", f"{flavour}-{digest}")
    name = os.path.basename(cfile)[:-2] + EXT_SUFFIX
    target = os.path.join(cache, name)
    if not os.path.exists(target):
        os.makedirs(cache, exist_ok=True)
        tmp = target + f".tmp{os.getpid()}"
        _compile(cfile, tmp, flavour)
        os.replace(tmp, target)
    return target


def make_snapshot(repo="/repo", flavour="plain"):
    """Copy the working tree's package into a fresh temp dir; returns (dir, notes)."""
    notes = []
    root = tempfile.mkdtemp(prefix="numpoly-verif-")
    src = os.path.join(repo, "numpoly")
    if not os.path.isdir(src):
        raise BuildInconclusive(f"{src} missing")
    shutil.copytree(
        src, os.path.join(root, "numpoly"),
        ignore=shutil.ignore_patterns("__pycache__", "*.pyc"),
    )
    for extra in ("test", "conftest.py", "pyproject.toml"):
        path = os.path.join(repo, extra)
        if os.path.isdir(path):
            shutil.copytree(path, os.path.join(root, extra),
                            ignore=shutil.ignore_patterns("__pycache__", "*.pyc"))
        elif os.path.exists(path):
            shutil.copy2(path, os.path.join(root, extra))
    cdir = os.path.join(root, "numpoly", "cfunctions")
    jobs = []
    for mod in MODULES:
        cfile = os.path.join(cdir, mod + ".c")
        sofile = os.path.join(cdir, mod + EXT_SUFFIX)
        pyx = os.path.join(repo, "numpoly", "cfunctions", mod + ".pyx")
        rc = os.path.join(repo, "numpoly", "cfunctions", mod + ".c")
        if os.path.exists(pyx) and os.path.exists(rc) and \
                os.path.getmtime(pyx) > os.path.getmtime(rc) + 1:
            notes.append(f"{mod}.pyx is newer than {mod}.c; Cython unavailable, .c used")
        if flavour == "plain":
            rso = os.path.join(repo, "numpoly", "cfunctions", mod + EXT_SUFFIX)
            if os.path.exists(sofile) and os.path.exists(rc) and \
                    os.path.getmtime(rso) >= os.path.getmtime(rc):
                continue
            if os.path.exists(sofile) and not os.path.exists(cfile):
                notes.append(f"{mod}: prebuilt .so used, no .c present")
                continue
        if not os.path.exists(cfile):
            shutil.rmtree(root, ignore_errors=True)
            raise BuildInconclusive(f"{mod}.c missing (Cython unavailable)")
        jobs.append((cfile, sofile))
    from concurrent.futures import ThreadPoolExecutor

    def work(job):
        cfile, sofile = job
        built = _cached_ext(cfile, flavour)
        if os.path.exists(sofile):
            os.remove(sofile)
        shutil.copy2(built, sofile)

    try:
        with ThreadPoolExecutor(3) as pool:
            list(pool.map(work, jobs))
    except BuildInconclusive:
        shutil.rmtree(root, ignore_errors=True)
        raise
    return root, notes


def worker_env(snapshot, flavour="plain", logdir=None, extra=None):
    env = dict(os.environ)
    env["PYTHONPATH"] = snapshot + os.pathsep + VERIF
    env["NUMPOLY_VERIF"] = "1"
    env["NUMPOLY_VERIF_SNAPSHOT"] = snapshot
    env.setdefault("PYTHONHASHSEED", "0")
    env["PYTHONDONTWRITEBYTECODE"] = "1"
    env["OMP_NUM_THREADS"] = "1"
    env["OPENBLAS_NUM_THREADS"] = "1"
    if flavour == "asan":
        env["LD_PRELOAD"] = ASAN_RT
        log = os.path.join(logdir, "asan")
        env["ASAN_OPTIONS"] = f"detect_leaks=0:halt_on_error=0:log_path={log}"
        env["UBSAN_OPTIONS"] = f"print_stacktrace=1:halt_on_error=0:log_path={log}"
        env["ASAN_SYMBOLIZER_PATH"] = "/usr/bin/llvm-symbolizer-14"
    if extra:
        env.update(extra)
    return env


if __name__ == "__main__":
    # setup: pre-build both flavours into the cache
    for flav in ("plain", "asan"):
        snap, notes_ = make_snapshot("/repo", flav)
        shutil.rmtree(snap, ignore_errors=True)
        print(flav, "ok", notes_)
