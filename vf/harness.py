"""Worker-side context: counters, signatures, samples, violations, write-ahead log."""
from __future__ import annotations

import json
import os
import signal
import time
import traceback


class CaseTimeout(BaseException):
    """Wall-clock watchdog for one case (verdict: inconclusive)."""


class Ctx:
    MAX_VIOL_PER_KEY = 5
    MAX_SAMPLES = 6

    def __init__(self, prop, spec, outfile):
        self.prop = prop
        self.spec = spec
        self.outfile = outfile
        self.curfile = outfile + ".cur"
        self.tier = spec.get("tier", "quick")
        self.seed = int(spec.get("seed", 0))
        self.shard = int(spec.get("shard", 0))
        self.skip_until = int(spec.get("skip_until", 0))
        self.evaluations = 0
        self.signatures = set()
        self.distinct_extra = 0  # cases distinct by construction (exhaustive enumerations)
        self.counters = {}
        self.samples = []
        self.violations = []
        self.viol_counts = {}
        self.inconclusive = []
        self.case_index = -1
        self.cases_done = 0
        self.notes = set()
        self._last_flush = time.time()
        self._case = None
        self.case_timeout = float(spec.get("case_timeout", 120))
        signal.signal(signal.SIGALRM, self._on_alarm)

    # -- case bracket -----------------------------------------------------
    def _on_alarm(self, signum, frame):
        raise CaseTimeout()

    def begin(self, case):
        """Write-ahead: persist the case before executing it.

        Returns False when the case must be skipped (restart after a crash).
        """
        self.case_index += 1
        if self.case_index < self.skip_until:
            return False
        self._case = case
        with open(self.curfile, "w") as handle:
            json.dump({"index": self.case_index, "case": case}, handle, default=_default)
        signal.setitimer(signal.ITIMER_REAL, self.case_timeout)
        return True

    def end(self):
        signal.setitimer(signal.ITIMER_REAL, 0)
        self.cases_done += 1
        self._case = None
        now = time.time()
        if now - self._last_flush > 3.0:
            self.flush()

    def run_case(self, case, func):
        """begin/func/end with timeout + unexpected-harness-error handling."""
        if not self.begin(case):
            return
        try:
            func(case)
        except CaseTimeout:
            self.inconclusive.append(
                {"reason": "case watchdog fired", "index": self.case_index, "case": case}
            )
        except Exception as err:  # pylint: disable=broad-except
            # raised inside the library, in a place where the workload expects the call to
            # succeed (every call that is allowed to fail is guarded where it is made): the
            # operation failed, which is a violation of whatever the case was checking
            tb, origin = err.__traceback__, ""
            while tb is not None:
                origin = tb.tb_frame.f_code.co_filename
                tb = tb.tb_next
            snapshot = os.environ.get("NUMPOLY_VERIF_SNAPSHOT", "\0")
            if origin.startswith(snapshot) or ("/numpoly/" in origin and "/verif/" not in origin):
                op = case.get("op") or case.get("fn") or case.get("kind") or "?" \
                    if isinstance(case, dict) else "?"
                self.violation({"op": op, "failure": exc_fact(err), "unguarded": True},
                               f"the library raised where the workload expects success: "
                               f"{type(err).__name__}: {err}\n{tb_short(err, 6)}", case)
                return
            # an error of the harness itself is never a verdict
            self.count("harness_errors")
            if len(self.inconclusive) < 20:
                self.inconclusive.append(
                    {"reason": "harness error: " + tb_short(err, 4), "index": self.case_index,
                     "case": case}
                )
        finally:
            self.end()

    # -- recording ----------------------------------------------------------
    def count(self, name, n=1):
        self.counters[name] = self.counters.get(name, 0) + n

    def evaluated(self, signature=None, nontrivial=False, n=1):
        self.evaluations += n
        if nontrivial and signature is not None:
            self.signatures.add(_sig(signature))

    def sample(self, case):
        if len(self.samples) < self.MAX_SAMPLES:
            self.samples.append(case)

    def note(self, text):
        self.notes.add(text)

    def violation(self, facts, detail, case=None):
        """Record a violation; ``facts`` feed the known-finding classifier."""
        facts = dict(facts)
        key = json.dumps(facts, sort_keys=True, default=_default)
        self.viol_counts[key] = self.viol_counts.get(key, 0) + 1
        if self.viol_counts[key] <= self.MAX_VIOL_PER_KEY:
            self.violations.append(
                {
                    "facts": facts,
                    "detail": str(detail)[:1500],
                    "case": case if case is not None else self._case,
                    "index": self.case_index,
                    "shard": self.shard,
                }
            )

    def inconclusive_case(self, reason, case=None):
        if len(self.inconclusive) < 20:
            self.inconclusive.append(
                {"reason": reason, "index": self.case_index,
                 "case": case if case is not None else self._case}
            )
        self.count("inconclusive_cases")

    # -- output -------------------------------------------------------------
    def result(self, finished):
        return {
            "prop": self.prop,
            "shard": self.shard,
            "finished": finished,
            "evaluations": self.evaluations,
            "signatures": sorted(self.signatures),
            "distinct_extra": self.distinct_extra,
            "counters": self.counters,
            "samples": self.samples,
            "violations": self.violations,
            "viol_counts": self.viol_counts,
            "inconclusive": self.inconclusive,
            "case_index": self.case_index,
            "cases_done": self.cases_done,
            "notes": sorted(self.notes),
        }

    def flush(self, finished=False):
        tmp = self.outfile + ".tmp"
        with open(tmp, "w") as handle:
            json.dump(self.result(finished), handle, default=_default)
        os.replace(tmp, self.outfile)
        self._last_flush = time.time()


def _sig(signature):
    if isinstance(signature, str):
        return signature
    return json.dumps(signature, sort_keys=True, default=_default)


def _default(obj):
    import numpy

    if isinstance(obj, numpy.generic):
        obj = obj.item()
        if isinstance(obj, complex):
            return {"re": obj.real, "im": obj.imag}
        return obj
    if isinstance(obj, complex):
        return {"re": obj.real, "im": obj.imag}
    if isinstance(obj, numpy.ndarray):
        return obj.tolist()
    if isinstance(obj, (set, frozenset, tuple)):
        return list(obj)
    if isinstance(obj, numpy.dtype):
        return str(obj)
    if isinstance(obj, type):
        return obj.__name__
    if isinstance(obj, bytes):
        return obj.hex()
    return repr(obj)


def exc_fact(exc):
    return f"exception:{type(exc).__name__}"


def tb_short(exc, limit=6):
    lines = traceback.format_exception(type(exc), exc, exc.__traceback__)
    text = "".join(lines[-limit:])
    return text[-1200:]
