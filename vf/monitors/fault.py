"""M-FAULT: source-free failpoints through sys.monitoring LINE events.

A LINE callback armed for the n-th line event raises ``InjectedFault`` *inside*
a running numpoly operation, aborting it at an arbitrary statement boundary.
Failpoints are never placed in numpoly/option.py (an exception between its
dict update and its ``try`` cannot occur in a real run).
"""
from __future__ import annotations

import sys
import types

TOOL = 4
MON = sys.monitoring
EV = MON.events


class InjectedFault(Exception):
    """The fault raised by an armed failpoint."""


def numpoly_code_objects(exclude=("numpoly.option",)):
    """All code objects (functions, methods, nested) defined in numpoly modules."""
    import numpoly

    seen = {}
    for modname, module in list(sys.modules.items()):
        if not (modname == "numpoly" or modname.startswith("numpoly.")):
            continue
        if modname in exclude or module is None:
            continue
        for obj in list(vars(module).values()):
            _collect(obj, modname, seen)
    for obj in vars(numpoly.ndpoly).values():
        _collect(obj, "numpoly.baseclass", seen)
    return list(seen.values())


def _collect(obj, modname, seen):
    funcs = []
    if isinstance(obj, types.FunctionType):
        funcs.append(obj)
    elif isinstance(obj, (staticmethod, classmethod)):
        funcs.append(obj.__func__)
    elif isinstance(obj, property):
        funcs += [f for f in (obj.fget, obj.fset) if f is not None]
    elif hasattr(obj, "__wrapped__") and isinstance(obj.__wrapped__, types.FunctionType):
        funcs.append(obj.__wrapped__)
    for func in funcs:
        if not getattr(func, "__module__", "").startswith("numpoly"):
            continue
        if func.__module__ == "numpoly.option":
            continue
        _walk(func.__code__, seen)


def _walk(code, seen):
    if id(code) in seen:
        return
    seen[id(code)] = code
    for const in code.co_consts:
        if isinstance(const, types.CodeType):
            _walk(const, seen)


class FaultInjector:
    def __init__(self):
        self.codes = []
        self.armed = None
        self.counter = 0
        self.active = False
        self.hit = None
        self.sites = set()

    def attach(self):
        MON.use_tool_id(TOOL, "verif-fault")
        self.codes = numpoly_code_objects()
        MON.register_callback(TOOL, EV.LINE, self._line)
        for code in self.codes:
            MON.set_local_events(TOOL, code, EV.LINE)

    def detach(self):
        for code in self.codes:
            MON.set_local_events(TOOL, code, 0)
        MON.register_callback(TOOL, EV.LINE, None)
        MON.free_tool_id(TOOL)

    def _line(self, code, line):
        if not self.active:
            return None
        self.counter += 1
        if self.armed is not None and self.counter == self.armed:
            self.hit = (code.co_qualname, code.co_filename.rsplit("/", 1)[-1], line)
            self.sites.add(self.hit)
            self.armed = None
            raise InjectedFault(f"injected at {self.hit}")
        return None

    def count(self, func):
        """Number of line events a body executes (dry run)."""
        self.counter, self.armed, self.active = 0, None, True
        try:
            func()
        finally:
            self.active = False
        return self.counter

    def run(self, func, nth):
        """Run with a failpoint at the nth line event. Returns (hit, exc)."""
        self.counter, self.armed, self.active, self.hit = 0, nth, True, None
        exc = None
        try:
            func()
        except InjectedFault as err:
            exc = err
        except Exception as err:  # the fault was swallowed/translated by the code
            exc = err
        finally:
            self.active = False
            self.armed = None
        return self.hit, exc
