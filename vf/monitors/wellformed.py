"""M-WF: well-formedness of a polynomial array and the three rebuild routes."""
from __future__ import annotations

import numpy

from .. import model as M

KEY_OFFSET = 59


def problems(poly):
    """List of violated invariants (empty when well-formed)."""
    out = []
    try:
        names = tuple(poly.names)
        exponents = numpy.asarray(poly.exponents)
        keys = [str(k) for k in poly.keys]
        shape = tuple(poly.shape)
        dtype = poly.dtype
    except Exception as err:  # pylint: disable=broad-except
        return [f"attributes unreadable: {type(err).__name__}: {err}"]
    if len(names) < 1:
        out.append("no indeterminate names")
    if len(set(names)) != len(names) or not all(isinstance(n, str) and n for n in names):
        out.append(f"names not distinct non-empty strings: {names}")
    if exponents.ndim != 2:
        out.append(f"exponents.ndim = {exponents.ndim}")
        return out
    if exponents.shape[1] != len(names):
        out.append(f"exponent width {exponents.shape[1]} != number of names {len(names)}")
    rows = [tuple(int(e) for e in row) for row in exponents]
    if len(set(rows)) != len(rows):
        out.append(f"duplicate exponent rows: {sorted(r for r in set(rows) if rows.count(r) > 1)[:3]}")
    if len(keys) != len(rows):
        out.append(f"{len(keys)} keys for {len(rows)} exponent rows")
    if len(set(keys)) != len(keys):
        out.append("duplicate storage keys")
    try:
        coefficients = poly.coefficients
    except Exception as err:  # pylint: disable=broad-except
        return out + [f"coefficients unreadable: {type(err).__name__}: {err}"]
    size = int(numpy.prod(shape, dtype=int)) if shape else 1
    if size:
        if len(coefficients) != len(rows):
            out.append(f"{len(coefficients)} coefficients for {len(rows)} exponent rows")
        for i, coef in enumerate(coefficients):
            coef = numpy.asarray(coef)
            if tuple(coef.shape) != shape:
                out.append(f"coefficient {i} has shape {coef.shape}, array shape {shape}")
                break
            if coef.dtype != dtype and coef.dtype.newbyteorder("=") != numpy.dtype(dtype).newbyteorder("="):
                # (byte order is storage, not type: '>f8' and float64 hold the same numbers)
                out.append(f"coefficient {i} has dtype {coef.dtype}, polynomial dtype {dtype}")
                break
    # raw structured view
    try:
        raw = poly.values
        fields = raw.dtype.names
        if fields is None:
            out.append("values is not a structured array")
        else:
            if tuple(raw.shape) != shape:
                out.append(f"values has shape {raw.shape}, array shape {shape}")
            decoded = []
            for field in fields:
                row = [ord(ch) - KEY_OFFSET for ch in field]
                row += [0] * (len(names) - len(row))
                decoded.append(tuple(row))
            if decoded != rows:
                diff = [(d, r) for d, r in zip(decoded, rows) if d != r][:3]
                out.append(f"raw field names decode to other exponents (decoded, exponents): {diff}"
                           if diff else f"{len(decoded)} raw fields for {len(rows)} exponent rows")
            if list(fields) != keys:
                out.append("raw field names differ from keys")
            for field in fields:
                if raw.dtype[field] != dtype and \
                        raw.dtype[field].newbyteorder("=") != numpy.dtype(dtype).newbyteorder("="):
                    out.append(f"field {field!r} has dtype {raw.dtype[field]}, polynomial {dtype}")
                    break
    except Exception as err:  # pylint: disable=broad-except
        out.append(f"values unreadable: {type(err).__name__}: {err}")
    # the exponent matrix handed out belongs to the caller: writing into it must not change what
    # this (or any other) polynomial reports afterwards (seed C03-r13-1: shared memo of decoded keys)
    try:
        mine = poly.exponents
        if isinstance(mine, numpy.ndarray) and mine.size and mine.flags.writeable:
            mine += 1
            try:
                again = [tuple(int(e) for e in row) for row in numpy.asarray(poly.exponents)]
            finally:
                mine -= 1
            if again != rows:
                out.append("writing into the matrix returned by .exponents changed the exponents "
                           f"the polynomial reports: {rows[:3]} -> {again[:3]}")
    except Exception as err:  # pylint: disable=broad-except
        out.append(f"exponents not re-readable after the caller wrote into its copy: "
                   f"{type(err).__name__}: {err}")
    return out


def neutral(func):
    """Run a monitor function under its own warning / floating-point settings: it may be called
    while the workload has warnings or floating-point faults promoted to errors."""
    import functools
    import warnings

    @functools.wraps(func)
    def wrapper(*args, **kwargs):
        with warnings.catch_warnings(), numpy.errstate(all="ignore"):
            warnings.simplefilter("ignore")
            return func(*args, **kwargs)
    return wrapper


@neutral
def rebuild_problems(poly):
    """Rebuild through the three routes; returns a list of problems."""
    import numpoly

    out = []
    if not poly.size:
        return out
    try:
        ref = M.abstract(poly)
    except M.Unmodelable:
        return out  # NaN / inf coefficients: no exact model, nothing to compare
    except Exception as err:  # pylint: disable=broad-except
        return [f"cannot abstract: {err}"]
    routes = []
    routes.append(("attributes", lambda: numpoly.polynomial_from_attributes(
        poly.exponents, poly.coefficients, poly.names, retain_names=True)))
    # the same attribute objects used for two rebuilds, zero terms and names kept as given:
    # a triple denotes its polynomial however often it is used
    held = (poly.exponents, poly.coefficients, poly.names)

    def twice():
        first = numpoly.polynomial_from_attributes(*held, retain_coefficients=True, retain_names=True)
        second = numpoly.polynomial_from_attributes(*held, retain_coefficients=True, retain_names=True)
        if M.diff_arrays(M.abstract(second), M.abstract(first)):
            raise AssertionError("second rebuild from the same attribute objects differs from the "
                                 f"first: {second!r:.120} vs {first!r:.120}")
        return second
    routes.append(("attributes (used twice)", twice))
    routes.append(("raw view", lambda: numpoly.aspolynomial(numpy.array(poly.values), names=poly.names)))
    routes.append(("todict", lambda: numpoly.polynomial(poly.todict(), names=poly.names)))
    for label, func in routes:
        try:
            back = func()
        except Exception as err:  # pylint: disable=broad-except
            out.append(f"rebuild from {label} raised {type(err).__name__}: {err}")
            continue
        if tuple(back.shape) != tuple(poly.shape):
            out.append(f"rebuild from {label}: shape {back.shape} != {poly.shape}")
            continue
        if back.dtype != poly.dtype and back.dtype.newbyteorder("=") != poly.dtype.newbyteorder("="):
            out.append(f"rebuild from {label}: dtype {back.dtype} != {poly.dtype}")
        if tuple(back.names) != tuple(poly.names):
            out.append(f"rebuild from {label}: names {back.names} != {poly.names}")
        try:
            text = M.diff_arrays(M.abstract(back), ref)
        except Exception as err:  # pylint: disable=broad-except
            text = str(err)
        if text:
            out.append(f"rebuild from {label} is a different polynomial: {text}")
        try:
            if not numpy.all(numpy.asarray(back == poly)):
                out.append(f"rebuild from {label} does not compare equal (==)")
        except Exception as err:  # pylint: disable=broad-except
            out.append(f"== on rebuild from {label} raised {type(err).__name__}")
    return out


def polys_in(value, depth=0):
    import numpoly

    if isinstance(value, numpoly.ndpoly):
        yield value
    elif isinstance(value, (list, tuple)) and depth < 4:
        for item in value:
            yield from polys_in(item, depth + 1)
    elif isinstance(value, dict) and depth < 4:
        for item in value.values():
            yield from polys_in(item, depth + 1)


problems = neutral(problems)
