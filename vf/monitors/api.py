"""M-API: call monitor on numpoly's code objects through sys.monitoring.

PY_START / PY_RETURN (local events) and PY_UNWIND (global, filtered) on the
code object of every function defined in ``numpoly.*`` and every Python-level
``ndpoly`` method / property.  Attaching to code objects means references bound
before attachment (the registries, ``from .multiply import multiply``) cannot
bypass the monitor.  ``boundary`` calls are those whose caller frame is outside
``numpoly``.
"""
from __future__ import annotations

import sys
import types

TOOL = 2
MON = sys.monitoring
EV = MON.events


def toplevel_code_objects():
    """{id(code): (code, qualified name)} for numpoly functions and ndpoly members."""
    import numpoly

    out = {}

    def add(func, owner):
        if isinstance(func, (staticmethod, classmethod)):
            func = func.__func__
        if isinstance(func, property):
            for part in (func.fget, func.fset):
                if part is not None:
                    add(part, owner)
            return
        func = getattr(func, "__wrapped__", func)
        if not isinstance(func, types.FunctionType):
            return
        if not getattr(func, "__module__", "").startswith("numpoly"):
            return
        code = func.__code__
        out[id(code)] = (code, f"{func.__module__}.{func.__qualname__}")

    for modname, module in list(sys.modules.items()):
        if module is None or not (modname == "numpoly" or modname.startswith("numpoly.")):
            continue
        for obj in list(vars(module).values()):
            add(obj, modname)
    for obj in vars(numpoly.ndpoly).values():
        add(obj, "numpoly.baseclass.ndpoly")
    return out


def frame_arguments(code, frame):
    """{parameter name: value} of a frame at function entry."""
    count = code.co_argcount + code.co_kwonlyargcount
    names = list(code.co_varnames[:count])
    flags = code.co_flags
    extra = count
    if flags & 0x04:
        names.append(code.co_varnames[extra])
        extra += 1
    if flags & 0x08:
        names.append(code.co_varnames[extra])
    local = frame.f_locals
    return {name: local[name] for name in names if name in local}


class ApiMonitor:
    def __init__(self, on_enter=None, on_exit=None, boundary_only=True):
        self.on_enter = on_enter
        self.on_exit = on_exit
        self.boundary_only = boundary_only
        self.codes = {}
        self.open = {}
        self.busy = False
        self.calls = 0
        self.boundary_calls = 0
        self.per_function = {}
        self.attached = False

    def attach(self):
        self.codes = toplevel_code_objects()
        MON.use_tool_id(TOOL, "verif-api")
        MON.register_callback(TOOL, EV.PY_START, self._start)
        MON.register_callback(TOOL, EV.PY_RETURN, self._return)
        MON.register_callback(TOOL, EV.PY_UNWIND, self._unwind)
        for code, _ in self.codes.values():
            MON.set_local_events(TOOL, code, EV.PY_START | EV.PY_RETURN)
        MON.set_events(TOOL, EV.PY_UNWIND)
        self.attached = True

    def detach(self):
        if not self.attached:
            return
        for code, _ in self.codes.values():
            MON.set_local_events(TOOL, code, 0)
        MON.set_events(TOOL, 0)
        for event in (EV.PY_START, EV.PY_RETURN, EV.PY_UNWIND):
            MON.register_callback(TOOL, event, None)
        MON.free_tool_id(TOOL)
        self.attached = False

    def _start(self, code, offset):
        if self.busy:
            return None
        entry = self.codes.get(id(code))
        if entry is None:
            return None
        frame = sys._getframe(1)
        caller = frame.f_back
        boundary = caller is None or not str(caller.f_globals.get("__name__", "")).startswith(
            "numpoly")
        self.calls += 1
        if boundary:
            self.boundary_calls += 1
        elif self.boundary_only:
            return None
        name = entry[1]
        self.per_function[name] = self.per_function.get(name, 0) + 1
        token = None
        if self.on_enter is not None:
            self.busy = True
            try:
                token = self.on_enter(name, code, frame_arguments(code, frame), boundary)
            finally:
                self.busy = False
        self.open[id(frame)] = (name, token, boundary)
        return None

    def _finish(self, code, value, exc):
        if self.busy:
            return None
        if id(code) not in self.codes:
            return None
        frame = sys._getframe(2)
        entry = self.open.pop(id(frame), None)
        if entry is None or self.on_exit is None:
            return None
        self.busy = True
        try:
            self.on_exit(entry[0], entry[1], entry[2], value, exc)
        finally:
            self.busy = False
        return None

    def _return(self, code, offset, retval):
        return self._finish(code, retval, None)

    def _unwind(self, code, offset, exc):
        return self._finish(code, None, exc)
