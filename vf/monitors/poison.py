"""M-POISON: allocator hook on ndpoly.__new__ + dual-poison differential.

Every fresh polynomial storage is allocated by ``ndpoly.__new__``; the hook
fills the new buffer with a poison byte.  Running an operation twice with two
different poison bytes and diffing the bytes of everything it returns detects
output that was derived from memory the operation never wrote -- without any
value oracle.
"""
from __future__ import annotations

import numpy


class Poison:
    def __init__(self):
        self.byte = None
        self.allocations = 0
        self.installed = False
        self._orig = None

    def install(self):
        import numpoly

        cls = numpoly.ndpoly
        orig = cls.__new__
        poison = self

        def patched(klass, *args, **kwargs):
            obj = orig(klass, *args, **kwargs)
            if poison.byte is not None:
                try:
                    base = obj.view(numpy.ndarray)
                    if base.size:
                        base.reshape(-1).view(numpy.uint8)[...] = poison.byte
                    poison.allocations += 1
                except Exception:  # pylint: disable=broad-except
                    pass
            return obj

        self._orig = orig
        cls.__new__ = patched
        self.installed = True

    def uninstall(self):
        import numpoly

        if self.installed:
            numpoly.ndpoly.__new__ = self._orig
            self.installed = False


def fingerprint(value, depth=0):
    """Bytes and structure of everything an operation returned."""
    import numpoly

    if isinstance(value, numpoly.ndpoly):
        base = numpy.asarray(value)
        return ("poly", tuple(value.shape), str(base.dtype), tuple(value.names), base.tobytes())
    if isinstance(value, numpy.ndarray):
        if value.dtype == object:
            return ("objarr", tuple(fingerprint(v, depth + 1) for v in value.ravel().tolist()))
        return ("arr", tuple(value.shape), str(value.dtype), value.tobytes())
    if isinstance(value, (list, tuple)) and depth < 4:
        return ("seq", tuple(fingerprint(v, depth + 1) for v in value))
    if isinstance(value, dict) and depth < 4:
        return ("dict", tuple((repr(k), fingerprint(v, depth + 1)) for k, v in value.items()))
    if isinstance(value, numpy.generic):
        return ("scalar", str(value.dtype), value.tobytes())
    if isinstance(value, (int, float, complex, bool, str, type(None))):
        return ("py", repr(value))
    return ("other", type(value).__name__)


def differs(fp1, fp2):
    """Empty string when identical, else where the two runs differ."""
    if fp1 == fp2:
        return ""
    if fp1[0] != fp2[0]:
        return f"kind {fp1[0]} vs {fp2[0]}"
    if fp1[0] == "poly":
        if fp1[1:4] != fp2[1:4]:
            return f"structure differs: {fp1[1:4]} vs {fp2[1:4]}"
        a = numpy.frombuffer(fp1[4], dtype=numpy.uint8)
        b = numpy.frombuffer(fp2[4], dtype=numpy.uint8)
        bad = numpy.flatnonzero(a != b)
        return (f"{bad.size} of {a.size} output bytes depend on the poison (first at byte "
                f"{int(bad[0])}: {a[bad[0]]:#x} vs {b[bad[0]]:#x}); shape={fp1[1]} dtype={fp1[2][:80]}")
    if fp1[0] == "arr":
        return f"plain array result differs between poisons: {fp1[1:3]}"
    if fp1[0] in ("seq", "dict", "objarr"):
        for i, (x, y) in enumerate(zip(fp1[1], fp2[1])):
            text = differs(x if fp1[0] != "dict" else x[1], y if fp1[0] != "dict" else y[1])
            if text:
                return f"item {i}: {text}"
        return "sequence lengths differ"
    return f"{fp1} vs {fp2}"[:300]
