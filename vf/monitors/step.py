"""M-STEP: logical step budget + cycle detection for the division loop.

``sys.monitoring`` JUMP events on the code objects of the division module give
the loop back-edges (destination < source).  On every back-edge of
``poly_divmod`` the running dividend (frame local) is digested in canonical
sparse form; a repeated digest inside one invocation proves non-termination of
this deterministic loop, and a back-edge count above the budget is reported as
"no termination within N steps".  Verdicts never depend on wall-clock time.
"""
from __future__ import annotations

import sys

TOOL = 3
MON = sys.monitoring
EV = MON.events


class NonTermination(BaseException):
    """Raised from inside the monitored loop."""

    def __init__(self, kind, steps, detail=""):
        super().__init__(f"{kind} after {steps} back-edges {detail}")
        self.kind = kind
        self.steps = steps


def digest(poly):
    """Canonical sparse form of an ndpoly, by name (not by position)."""
    import numpy

    names = tuple(poly.names)
    rows = poly.exponents.tolist()
    base = numpy.asarray(poly)
    items = []
    for key, row in zip(poly.keys, rows):
        data = base[str(key)]
        if not numpy.any(data):
            continue
        mono = tuple(sorted((n, e) for n, e in zip(names, row) if e))
        items.append((mono, data.tobytes(), str(data.dtype)))
    items.sort()
    return hash((tuple(items), tuple(poly.shape)))


class StepMonitor:
    def __init__(self, budget=10000):
        self.budget = budget
        self.codes = []
        self.main_code = None
        self.frames = {}
        self.total_backedges = 0
        self.max_backedges = 0
        self.invocations = 0
        self.active = False

    def attach(self):
        import numpoly.poly_function.divide.divmod as module

        MON.use_tool_id(TOOL, "verif-step")
        self.main_code = module.poly_divmod.__code__
        self.codes = [module.poly_divmod.__code__, module.get_division_candidate.__code__]
        MON.register_callback(TOOL, EV.JUMP, self._jump)
        MON.register_callback(TOOL, EV.PY_START, self._start)
        for code in self.codes:
            MON.set_local_events(TOOL, code, EV.JUMP | EV.PY_START)
        self.active = True

    def detach(self):
        self.active = False
        for code in self.codes:
            MON.set_local_events(TOOL, code, 0)
        MON.register_callback(TOOL, EV.JUMP, None)
        MON.register_callback(TOOL, EV.PY_START, None)
        MON.free_tool_id(TOOL)

    def reset(self):
        self.frames.clear()

    def _start(self, code, offset):
        if code is self.main_code:
            frame = sys._getframe(1)
            self.frames[id(frame)] = {"steps": 0, "seen": set()}
            self.invocations += 1

    def _jump(self, code, src, dst):
        if dst >= src or not self.active:
            return None
        frame = sys._getframe(1)
        if code is not self.main_code:
            # finite for-loops of the candidate search: count against the budget
            # of the enclosing division only
            return None
        state = self.frames.get(id(frame))
        if state is None:
            state = self.frames[id(frame)] = {"steps": 0, "seen": set()}
        state["steps"] += 1
        self.total_backedges += 1
        self.max_backedges = max(self.max_backedges, state["steps"])
        if state["steps"] > self.budget:
            self.frames.pop(id(frame), None)
            raise NonTermination("budget", state["steps"])
        dividend = frame.f_locals.get("dividend_")
        divisor = frame.f_locals.get("divisor")
        if dividend is not None and divisor is not None:
            try:
                key = (digest(dividend), digest(divisor))
            except Exception:  # pylint: disable=broad-except
                return None
            if key in state["seen"]:
                steps = state["steps"]
                self.frames.pop(id(frame), None)
                raise NonTermination("cycle", steps, "(running dividend repeated)")
            state["seen"].add(key)
        return None
