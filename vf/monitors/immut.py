"""M-IMM: byte-level snapshots of arguments (arrays, polynomials, containers)."""
from __future__ import annotations

import numpy


def snapshot(obj, depth=0):
    """A comparable, immutable description of an argument's observable state."""
    import numpoly

    if isinstance(obj, numpoly.ndpoly):
        base = numpy.asarray(obj)
        try:
            names = tuple(obj.names)
            keys = tuple(str(k) for k in obj.keys)
            dtype = str(obj.dtype)
        except Exception:  # pylint: disable=broad-except
            names, keys, dtype = (), (), "?"
        try:
            # the public exponents, copied (an implementation may cache the array)
            exponents = tuple(map(tuple, numpy.array(obj.exponents, copy=True).tolist()))
        except Exception:  # pylint: disable=broad-except
            exponents = ("unreadable",)
        return ("poly", tuple(obj.shape), dtype, names, keys, str(base.dtype), base.tobytes(),
                bool(obj.flags.writeable), exponents)
    if isinstance(obj, numpy.ndarray):
        if obj.dtype == object:
            if depth > 3:
                return ("objarr", tuple(obj.shape))
            return ("objarr", tuple(obj.shape),
                    tuple(snapshot(x, depth + 1) for x in obj.ravel().tolist()))
        return ("arr", tuple(obj.shape), str(obj.dtype), obj.tobytes(), bool(obj.flags.writeable))
    if isinstance(obj, (list, tuple)):
        if depth > 4:
            return ("seq", len(obj))
        return (type(obj).__name__, tuple(snapshot(x, depth + 1) for x in obj))
    if isinstance(obj, dict):
        if depth > 4:
            return ("dict", len(obj))
        return ("dict", tuple((repr(k), snapshot(v, depth + 1)) for k, v in obj.items()))
    if isinstance(obj, (int, float, complex, str, bool, type(None), numpy.generic)):
        return ("scalar", repr(obj))
    return ("other", type(obj).__name__)


FIELDS = {"poly": ("kind", "shape", "dtype", "names", "keys", "storage dtype", "coefficient bytes",
                   "writeable", "exponents"),
          "arr": ("kind", "shape", "dtype", "bytes", "writeable")}


def changed(before, after):
    """Empty string when equal, else which observable part differs."""
    if before == after:
        return ""
    if before[0] != after[0]:
        return f"kind {before[0]} -> {after[0]}"
    labels = FIELDS.get(before[0])
    if labels:
        parts = [labels[i] for i in range(min(len(before), len(after), len(labels)))
                 if before[i] != after[i]]
        return "changed: " + ", ".join(parts)
    if before[0] in ("list", "tuple", "objarr", "dict"):
        return f"{before[0]} contents changed"
    return "changed"
