"""Independent reader for numpoly's str/repr text (C16).

Parses the text of one polynomial element, written as ordinary arithmetic over
the indeterminates with the configured exponent and multiplication signs, into
the exact model; and splits array text produced by numpy.array2string into its
nested elements.
"""
from __future__ import annotations

import re

from . import model as M

NUMBER = re.compile(r"(?:\d+\.?\d*|\.\d+)(?:[eE][+-]?\d+)?")
NAME = re.compile(r"q\d+")
COMPLEX = re.compile(r"\(([^()]*)\)")


class ReadError(Exception):
    pass


def read_element(text, exp_sign="**", mul_sign="*"):
    """Returns (MP, [monomials in printed order])."""
    text = text.strip()
    pos = 0
    total = M.MP()
    monomials = []
    n = len(text)
    if not text:
        raise ReadError("empty element text")
    first = True
    while pos < n:
        sign = 1
        if text[pos] == "+":
            pos += 1
        elif text[pos] == "-":
            sign = -1
            pos += 1
        elif not first:
            raise ReadError(f"expected + or - at {pos} in {text!r}")
        first = False
        # coefficient
        coef = None
        if pos < n and text[pos] == "(":
            match = COMPLEX.match(text, pos)
            if not match:
                raise ReadError(f"unbalanced parenthesis at {pos} in {text!r}")
            try:
                coef = complex(match.group(1).replace(" ", ""))
            except ValueError as err:
                raise ReadError(f"bad complex {match.group(0)!r} in {text!r}") from err
            pos = match.end()
        elif text.startswith("True", pos):
            coef, pos = 1, pos + 4
        elif text.startswith("False", pos):
            coef, pos = 0, pos + 5
        else:
            match = NUMBER.match(text, pos)
            if match:
                token = match.group(0)
                pos = match.end()
                if pos < n and text[pos] == "j":
                    coef = complex(0, float(token))
                    pos += 1
                elif re.fullmatch(r"\d+", token):
                    coef = int(token)
                else:
                    coef = float(token)
        mono = {}
        have_coef = coef is not None
        expect_factor = not have_coef
        while pos < n:
            start = pos
            if have_coef or mono:
                # a multiplication sign must separate coefficient/factors
                if mul_sign and text.startswith(mul_sign, pos):
                    pos += len(mul_sign)
                elif mul_sign:
                    break
            match = NAME.match(text, pos)
            if not match:
                pos = start
                break
            name = match.group(0)
            pos = match.end()
            power = 1
            if text.startswith(exp_sign, pos):
                pmatch = re.compile(r"\d+").match(text, pos + len(exp_sign))
                if not pmatch:
                    raise ReadError(f"exponent sign without integer at {pos} in {text!r}")
                power = int(pmatch.group(0))
                pos = pmatch.end()
            if name in mono:
                raise ReadError(f"indeterminate {name} twice in one term of {text!r}")
            mono[name] = power
            expect_factor = False
        if expect_factor:
            raise ReadError(f"term without coefficient or indeterminate at {pos} in {text!r}")
        if coef is None:
            coef = 1
        value = M.coef(coef)
        if sign < 0:
            value = M.c_neg(value)
        key = frozenset((k, v) for k, v in mono.items() if v)
        total = total + M.MP({key: value})
        monomials.append(key)
        if pos < n and text[pos] not in "+-":
            raise ReadError(f"unexpected {text[pos]!r} at {pos} in {text!r}")
    return total, monomials


def split_array(text, separator):
    """Nested lists of element strings from numpy.array2string output."""
    text = text.strip()
    pos = 0

    def parse(pos):
        assert text[pos] == "["
        pos += 1
        items = []
        token = []

        def flush():
            piece = "".join(token).strip()
            token.clear()
            if piece:
                if separator == " ":
                    items.extend(p for p in piece.split() if p)
                else:
                    items.extend(p.strip() for p in piece.split(",") if p.strip())

        depth_paren = 0
        while pos < len(text):
            ch = text[pos]
            if ch == "[" and depth_paren == 0:
                flush()
                sub, pos = parse(pos)
                items.append(sub)
                continue
            if ch == "]" and depth_paren == 0:
                flush()
                return items, pos + 1
            if ch == "(":
                depth_paren += 1
            elif ch == ")":
                depth_paren -= 1
            token.append(ch)
            pos += 1
        raise ReadError("unbalanced brackets")

    if not text.startswith("["):
        return text
    items, end = parse(0)
    if text[end:].strip():
        raise ReadError(f"trailing text {text[end:]!r}")
    return items
