#!/bin/sh
# tools/reseed_all.sh [jobs]: regression over every kept seed - apply patch to a scratch copy, run the
# checks recorded in meta.json "caught_by" (quick tier) and report seeds that are no longer caught.
jobs="${1:-6}"
cd /verif
ls -d seeded/*/ | sed 's#/$##' | xargs -P "$jobs" -I{} sh -c '
  d={}; name=$(basename $d)
  checks=$(python3 -c "import json;print(\" \".join(json.load(open(\"$d/meta.json\"))[\"caught_by\"][:1]))")
  dir=$(mktemp -d /tmp/numpoly-reseed-XXXX)
  cp -r /repo/numpoly /repo/test /repo/conftest.py /repo/pyproject.toml $dir/
  if ! ( cd $dir && patch -p1 -s < /verif/$d/patch.diff ) >/dev/null 2>&1; then echo "$name PATCH-FAILED"; rm -rf $dir; exit 0; fi
  for p in $checks; do
    out=$(./check $p --tier quick --repo $dir --no-evidence 2>&1); rc=$?
    echo "$name $p rc=$rc"
  done
  rm -rf $dir'
