#!/usr/bin/env python3
"""Regenerate MANIFEST.json from the table below (run with python3-vt to validate)."""
import json
import os

HERE = os.path.dirname(os.path.dirname(os.path.abspath(__file__)))
TRUST = ("Trusted base: CPython 3.12 + numpy 2.5.3 as installed, the exact sparse reference "
         "model in vf/model.py, sys.monitoring delivering the events it documents; the native "
         "layer is monitored as of the generated .c files (Cython is not installed). Verdicts "
         "cover only the executions produced (counts in the evidence file).")

CLAIMS = {
    "C01": ("reference-model monitor over random expression DAGs",
            "Every operator node of seeded random expression DAGs (+ - neg pos * **, three "
            "spellings, results reused, hostile operand classes) is executed on the real library "
            "and compared with an exact sparse model; held = no mismatch on the counted nodes. "
            "Exploration is the right level: the input space is unbounded and the oracle is exact.",
            "3 C01"),
    "C02": ("reference-model monitor on evaluation/substitution + metamorphic riders",
            "Seeded polynomial arrays are called with full / partial / positional / keyword / None "
            "assignments of Python numbers, numpy scalars of every width, broadcasting arrays and "
            "polynomials; the returned array or polynomial is compared with exact substitution in "
            "the model; unknown / double names must raise TypeError; staged evaluation and "
            "type-carrier independence ride on the same executions.",
            "3 C02"),
    "C04": ("invariant monitor on the returned tuples + reference model + byte snapshots",
            "Every align_* call on seeded tuples of polynomial-likes is checked for model equality "
            "with the (broadcast) inputs, order, shared shape / ordered names / exponent rows and "
            "keys, idempotence, and byte-identical arguments.",
            "3 C04"),
    "C05": ("step monitor (sys.monitoring JUMP back-edges, cycle detection) + exact identity oracle",
            "Each division runs under a logical step monitor that digests the running dividend on "
            "every back-edge of the poly_divmod loop (repeat = proven cycle; budget 10000), and the "
            "returned (q, r) is checked in the exact model: identity within rounding, constant "
            "divisors, exact multiples, univariate degree bound, operator spellings.",
            "3 C05"),
    "C06": ("reference-model monitor under all 16 retain/sort option settings",
            "derivative / gradient / hessian results are compared with the model's formal partials "
            "for every designation kind and option setting; mixed partials, linearity and product "
            "rule ride along.",
            "3 C06"),
    "C07": ("offline order checker over recorded relation matrices + documented-order model",
            "Universes of small polynomials are compared against themselves with one broadcast call "
            "per operator; trichotomy, complements, antisymmetry, transitivity over all triples and "
            "agreement with the documented monomial order are decided on the six boolean matrices, "
            "under all four sort settings and in operator and function spellings; random larger "
            "pairs and maximum/minimum too.",
            "3 C07"),
    "C09": ("reference-model monitor: numpy itself on an object array of opaque model elements",
            "Every shape / join / split / select / indexing function of the statement is called with "
            "seeded valid arguments in the numpoly, numpy and method spellings; the result shape and "
            "every element are compared with what numpy does to an object array of exact model "
            "polynomials, names and dtype are compared with the operand's.",
            "3 C09"),
    "C10": ("reference-model monitor: folds of exact model + and *",
            "sum cumsum mean prod diff ediff1d inner outer matmul det are called over every axis / "
            "axis tuple / keepdims / n / prepend / append choice and compared with exact folds "
            "(det by Leibniz expansion up to 4x4).",
            "3 C10"),
    "C03": ("invariant monitor (well-formedness + rebuild routes) on every polynomial crossing the API boundary",
            "sys.monitoring PY_RETURN on all numpoly code objects delivers every polynomial returned "
            "to a caller outside numpoly while the workloads of C01/C02/C05/C06/C09-C11/C19 run; "
            "each is checked for the stated structural invariants and every 4th is rebuilt through "
            "the three routes; a dedicated constructor workload checks term / name pruning under "
            "the retain flags and the rejection of duplicates.",
            "3 C03"),
    "C08": ("differential monitor between spellings + dispatch spy for the negative half",
            "Every catalogue entry (covering the registries, read at run time) is executed in all "
            "its spellings and compared pairwise (type, shape, dtype, names, values, raise vs "
            "return); operators and ufunc.reduce/accumulate against their functions; every "
            "unregistered overridable numpy function, ufunc and ufunc method is called with "
            "polynomials under a spy on __array_function__/__array_ufunc__ and must raise "
            "FeatureNotSupported once the protocol is engaged.",
            "3 C08"),
    "C11": ("differential monitor against numpy on the raw numeric arrays",
            "Every catalogue entry is run on constant polynomial arrays with ties, negatives and "
            "zeros and compared (values, shape, dtype kind of boolean/index results) with the numpy "
            "function on the underlying arrays; numeric division by a non-constant polynomial must "
            "raise FeatureNotSupported.",
            "3 C11"),
    "C12": ("cast oracle + dual-poison differential on the allocator hook + ASan/UBSan on the native layer",
            "All ordered pairs of the 14 numeric dtypes go through constructors, casts, arithmetic "
            "and shape functions and are compared with numpy's own astype/result_type; every "
            "catalogue operation is executed twice with differently poisoned fresh storage "
            "(hook on ndpoly.__new__) and the output bytes are diffed; the dtype workload is "
            "repeated on an ASan+UBSan build of the three native modules and report blocks counted.",
            "3 C12"),
    "C13": ("round-trip monitor (pickle / copy / text) with exact and precision-aware comparison",
            "Seeded polynomial arrays go through pickle protocols 0-5, copy, deepcopy, .copy() "
            "(exact reproduction) and savetxt -> loadtxt over formats, delimiters, headers, "
            "comments and target kinds (shape, names, values to the precision of fmt); files "
            "without the numpoly header must load like numpy.loadtxt.",
            "3 C13"),
    "C15": ("differential monitor across option configurations",
            "Every operation of the catalogue is executed under the defaults and under a "
            "non-default setting of the eight boolean options and display strings; model value (by "
            "name), shape and dtype must agree and the setting must not make it fail.",
            "3 C15"),
    "C16": ("independent text reader as oracle on str/repr output + sympy round trip",
            "str(p) and repr(p) under all display settings and sign pairs are split into elements "
            "and parsed by an independent recursive-descent reader into the exact model, which must "
            "equal the element; printed term order must follow the selected monomial order; "
            "polynomial(to_sympy(p)) must equal p for 0-d int/float polynomials.",
            "3 C16"),
    "C17": ("snapshot monitor (M-IMM) at call entry / return / unwind via sys.monitoring + failpoints",
            "Byte-level snapshots of every array / polynomial argument of every monitored numpoly "
            "call are compared when the call returns or unwinds (boundary calls in quick, all "
            "internal calls in thorough); a direct pass covers aligned operands, the same object "
            "twice, raising calls and calls aborted half-way by injected faults.",
            "3 C17"),
    "C18": ("reference sort / brute-force enumeration oracle, repeated under three numpy sort kernels",
            "glexsort is compared with a comparison-based reference on bounded-exhaustive and "
            "random key matrices under numpy's AVX-512, AVX2 and scalar kernels; glexindex, bindex, "
            "cross_truncate and monomial are compared with brute-force enumeration using exact "
            "rational / 60-digit membership.",
            "3 C18"),
    "C19": ("reference-model monitor for leading terms, decomposition, set_dimensions and the sort proxy",
            "lead_exponent / lead_coefficient / isconstant / tonumpy / todict / decompose / "
            "set_dimensions are compared with the exact model; sortable_proxy must be a permutation "
            "monotone in (leading exponent, leading coefficient); argmax/argmin/amax/amin without "
            "axis must select an extreme element.",
            "3 C19"),
    "C20": ("exhaustive encode/decode monitor + exact big-exponent model + outcome classifier",
            "Every exponent below 55000 in each position of 1-3 indeterminates is stored, read "
            "back, decoded from the raw field names and rebuilt; products with a+b <= 600, random "
            "tuples up to 1e5 through power / derivative / evaluation / alignment / pickling / text "
            "files; outcomes classified correct / raised / WRONG.",
            "3 C20"),
    "C14": ("history checker against a sequential stack model + injected faults",
            "All valid option histories up to the length bound are executed with real with-blocks "
            "and compared with a stack model after every step (exhaustive within the bound), plus "
            "random long histories, generator-held blocks and numpoly operations aborted by "
            "sys.monitoring failpoints at statement boundaries inside a block.",
            "3 C14"),
}

REASON_TODO = "check not built yet (work in progress; see DESIGN.md section 3 for the planned monitor)"


def main():
    props = [json.loads(line) for line in open(os.path.join(HERE, "properties.jsonl"))]
    checks = []
    not_applicable = []
    for prop in props:
        pid = prop["id"]
        if pid in CLAIMS and os.path.exists(os.path.join(HERE, "vf", "props", pid.lower() + ".py")):
            technique, text, ref = CLAIMS[pid]
            checks.append({
                "property_id": pid,
                "quick_cmd": f"./check {pid} --tier quick",
                "thorough_cmd": f"./check {pid} --tier thorough",
                "evidence_file": f"/verif/evidence/{pid}.json",
                "replay_cmd_template": f"./check {pid} --replay {{path}}",
                "engine": "vf",
                "level_claimed": {"category": "exploration", "text": text,
                                  "design_ref": f"DESIGN.md section {ref}"},
                "level_note": TRUST,
                "technique": "runtime monitoring: " + technique,
            })
        else:
            not_applicable.append({"property_id": pid, "reason": REASON_TODO})
    manifest = {
        "version": 1,
        "setup_cmd": "./setup.sh",
        "hooks": {
            "guard": "NUMPOLY_VERIF",
            "enable": ("the harness sets NUMPOLY_VERIF=1 for its worker processes; every monitor "
                       "is attached from /verif at run time (sys.monitoring, wrappers, allocator "
                       "hook), the repository contains no hook code"),
            "baseline_off_cmd": ("cd /repo && /venv/bin/python -m pytest -ra -q -p no:cacheprovider "
                                 "--timeout=900 --continue-on-collection-errors"),
            "source_commits": [],
            "add_only": True,
        },
        "engines": [{
            "name": "vf", "path": "/verif/vf",
            "serves_properties": [c["property_id"] for c in checks],
            "kind_free_text": ("runtime-monitoring harness: snapshot of /repo's working tree, "
                               "sharded worker subprocesses with write-ahead case log, reference-"
                               "model / history / invariant monitors, ASan+UBSan build of the native "
                               "layer, known-findings classifier"),
        }],
        "checks": checks,
        "not_applicable": not_applicable,
        "notes": ("All checks: ./check <id> --tier quick|thorough [--replay file] [--repo dir]. "
                  "Exit 0 held / 1 VIOLATION / 3 INCONCLUSIVE. Fixes made to the repository are "
                  "listed in known_findings.json under 'fixed'."),
    }
    with open(os.path.join(HERE, "MANIFEST.json"), "w") as handle:
        json.dump(manifest, handle, indent=1)
    try:
        import jsonschema
        jsonschema.validate(manifest, json.load(open("/root/.vp/MANIFEST.schema.json")))
        print("MANIFEST.json valid;", len(checks), "checks,", len(not_applicable), "not yet claimed")
    except ImportError:
        print("written (jsonschema unavailable: not validated)")


if __name__ == "__main__":
    main()
