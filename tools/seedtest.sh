#!/bin/sh
# tools/seedtest.sh <patch.diff> <demo.py> <props...>
# Confirms a seeded change (suite unchanged, demo passes on clean tree and fails with the change)
# and runs the listed checks (quick tier) against a scratch copy with the change applied.
patch="$1"; demo="$2"; shift 2
dir=$(mktemp -d /tmp/numpoly-seed-XXXX)
cp -r /repo/numpoly /repo/test /repo/conftest.py /repo/pyproject.toml "$dir/"
( cd "$dir" && patch -p1 -s < "$patch" ) || { echo "PATCH FAILED"; rm -rf "$dir"; exit 2; }
suite=""
for hs in 0 1 2; do
  one=$(cd "$dir" && PYTHONHASHSEED=$hs PYTHONPATH="$dir" /venv/bin/python -m pytest -q -p no:cacheprovider test 2>&1 | tail -1 | sed 's/, [0-9]* warnings.*//')
  suite="$suite[hashseed $hs: $one] "
done
echo "suite with change: $suite"
( cd /tmp && PYTHONPATH=/repo /venv/bin/python "$demo" >/dev/null 2>&1 ); echo "demo on clean tree: exit $?"
( cd /tmp && PYTHONPATH="$dir" /venv/bin/python "$demo" >/dev/null 2>&1 ); echo "demo with change:  exit $?"
cd /verif
for p in "$@"; do
  out=$(./check "$p" --tier "${SEED_TIER:-quick}" --repo "$dir" --no-evidence 2>&1)
  rc=$?
  echo "check $p: rc=$rc $(echo "$out" | grep -c '^VIOLATION') violation lines; first: $(echo "$out" | grep -A2 '^VIOLATION' | sed -n 2,3p | cut -c1-260 | tr '\n' ' ')"
done
rm -rf "$dir"
