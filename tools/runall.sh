#!/bin/sh
# run every check's quick (or $1) tier on /repo, print one status line each
tier="${1:-quick}"
cd /verif || exit 1
for p in C01 C02 C03 C04 C05 C06 C07 C08 C09 C10 C11 C12 C13 C14 C15 C16 C17 C18 C19 C20; do
  start=$(date +%s)
  ./check $p --tier "$tier" > /tmp/runall-$p.log 2>&1; rc=$?
  end=$(date +%s)
  echo "$p rc=$rc $((end-start))s $(grep -c '^KNOWN-FINDING' /tmp/runall-$p.log) known  $(tail -1 /tmp/runall-$p.log | cut -c1-150)"
done
