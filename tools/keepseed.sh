#!/bin/sh
# tools/keepseed.sh <prop> <k> <checks...>: confirm the agent's mutant k for <prop> and keep it under seeded/<prop>-<k>/
prop="$1"; k="$2"; shift 2
src=${SEED_SRC_PREFIX:-/tmp/seed-}$prop/out
dst=/verif/seeded/${SEED_DST_NAME:-$prop-${SEED_DST_K:-$k}}
mkdir -p "$dst"
if [ -f "$src/mutant$k.diff" ]; then
  cp "$src/mutant$k.diff" "$dst/patch.diff"
  cp "$src/demo$k.py" "$dst/demo.py"
  cp "$src/meta$k.json" "$dst/agent_meta.json"
fi
/verif/tools/seedtest.sh "$dst/patch.diff" "$dst/demo.py" "$@" > "$dst/results.txt" 2>&1
python3 - "$dst/agent_meta.json" "$dst" "$prop" "$@" <<'PY'
import json,sys,re
meta=json.load(open(sys.argv[1])); dst=sys.argv[2]; prop=sys.argv[3]; checks=sys.argv[4:]
res=open(dst+'/results.txt').read()
caught=[c for c in checks if re.search(rf"check {c}: rc=1", res)]
missed=[c for c in checks if re.search(rf"check {c}: rc=0", res)]
out={"property":prop,"summary":meta.get("summary"),"needs":meta.get("needs"),"files":meta.get("files"),
     "written_by":"independent sub-agent given only the property text and a scratch worktree",
     "confirmed":{"suite":re.search(r"suite with change: (.*)",res).group(1),
                  "demo_clean_exit":int(re.search(r"demo on clean tree: exit (\d+)",res).group(1)),
                  "demo_changed_exit":int(re.search(r"demo with change:  exit (\d+)",res).group(1))},
     "ran":[f"tools/seedtest.sh seeded/{prop}-?/patch.diff seeded/{prop}-?/demo.py "+" ".join(checks)+"  (quick tier, scratch copy of /repo with the patch applied)"],
     "caught_by":caught,"not_caught_by":missed,"agent_notes":meta.get("ran")}
json.dump(out,open(dst+'/meta.json','w'),indent=1)
print(prop, sys.argv[1].split('meta')[-1][0], "caught by", caught, "missed by", missed, out["confirmed"])
PY
