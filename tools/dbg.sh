#!/bin/sh
# run one worker shard in the foreground against a snapshot (debug aid)
# usage: tools/dbg.sh C09 '{"part":0,"per_op":3,"tier":"quick","seed":0,"shard":0}' [repo]
prop="$1"; spec="$2"; repo="${3:-/repo}"
snap=$(mktemp -d /tmp/numpoly-verif-dbg-XXXX)
cp -r "$repo/numpoly" "$repo/test" "$repo/conftest.py" "$repo/pyproject.toml" "$snap/"
echo "$spec" > "$snap/spec.json"
cd /verif && NUMPOLY_VERIF_SNAPSHOT="$snap" PYTHONPATH="$snap:/verif" PYTHONHASHSEED=0 /venv/bin/python -P -m vf.worker "$prop" "$snap/spec.json" "$snap/out.json"
rc=$?
/venv/bin/python - "$snap/out.json" <<'PY'
import json,sys
try:
    r=json.load(open(sys.argv[1]))
except Exception as e:
    print("no result", e); sys.exit()
print("evaluations", r["evaluations"], "cases", r["cases_done"], "inconclusive", r["inconclusive"][:3])
print("counters", r["counters"])
for v in r["violations"][:int(__import__('os').environ.get('NV','12'))]:
    print("VIOL", json.dumps(v["facts"])); print("   ", v["detail"][:int(__import__('os').environ.get('NC','600'))].replace("\n","\n    "))
print(len(r["violations"]), "violations recorded;", sum(r["viol_counts"].values()), "total")
PY
rm -rf "$snap"; exit $rc
