#!/bin/sh
# tools/mut.sh <prop> <file-relative-to-repo> <python-expr old> <python-expr new> : run quick check on a mutated scratch copy
prop="$1"; file="$2"; old="$3"; new="$4"
dir=$(mktemp -d /tmp/numpoly-mut-XXXX)
cp -r /repo/numpoly /repo/test /repo/conftest.py /repo/pyproject.toml "$dir/"
python3 - "$dir/$file" "$old" "$new" <<'PY' || { rm -rf "$dir"; exit 2; }
import sys
p,old,new=sys.argv[1:4]
s=open(p).read()
if old not in s:
    print("MUTATION PATTERN NOT FOUND"); sys.exit(2)
open(p,'w').write(s.replace(old,new,1))
PY
cd /verif && ./check "$prop" --tier quick --repo "$dir" --no-evidence 2>&1 | grep -v "^    [a-z_A-Z0-9:]* = " | cut -c1-400 | head -${MUT_LINES:-12}
rm -rf "$dir"
