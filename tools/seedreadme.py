#!/usr/bin/env python3
"""Regenerate seeded/README.md from seeded/*/meta.json."""
import glob
import json
import os

HERE = os.path.dirname(os.path.dirname(os.path.abspath(__file__)))
HISTORY = {
    "C09-1": "first run: caught once in 31k cases (through an exception); index generator now emits advanced indices separated by a slice",
    "C10-1": "first run: missed by C10 and C11; axis tuples now contain negative entries",
    "C11-1": "first run: missed by C11 and C10 (same mechanism as C10-1); axis tuples now contain negative entries",
    "C10-2": "first run: missed; matmul generator now has (n,k)@(b,k,m) and (b,1,n,k)@(c,k,m) operands",
    "C08-2": "first run: missed; reductions now also run with where= masks (C08 operator table, catalogue entry sum_where); patch rebased onto the later repository fix of the reduce default axis",
    "C12-1": "first run: missed; cast oracle now multiplies / squares three-term operands in every dtype pair so that several products land on one exponent",
    "C12-2": "first run: missed; cast oracle now calls aspolynomial(poly, names=<own names>, dtype=T)",
    "C20-1": "first run: missed by C20, C12 and C01; C20's products now put the large exponent into a later indeterminate while the lexicographically last product row stays small (2 and 3 indeterminates)",
    "C15-2": "first run: C13 ended inconclusive (reading the unpickled object raised inside the harness) and C15 skipped the case because it failed under defaults too; an exception while reading a returned object is now a violation ('malformed'/'unreadable'), C15 gained whole programs built inside the option block and a pickle entry with retained zero terms",
    "C17-2": "first run: missed by C17; the direct pass now drives polynomials with bool coefficients (and astype'd copies in five dtypes) through the logical functions",
    "C01-3": "round 2. first run: caught by C12 and C20, missed by C01; C01's leaves now also come in int16/int32/float32/complex64 (the numpy fallback path of multiply)",
    "C01-4": "round 2. needs the global option retain_names=False: caught by C15 (the property that quantifies over configurations); C01 runs under default options only",
    "C02-3": "round 2. first run: caught by C17, missed by C02; C02 now calls the numpoly.call spelling a second time with the very same args/kwargs objects",
    "C03-3": "round 2. first run: missed; the constructor workload now passes the retain flags explicitly while the global options say the opposite",
    "C03-4": "round 2. pickle is not one of the three rebuild routes of C03: caught by C13",
    "C08-4": "round 2. first run: missed; the operator table now uses the same object on both sides, with NaN / inf coefficients",
    "C12-3": "round 2. first run: missed; the cast oracle now multiplies into an explicit out= polynomial of another dtype (same-kind casts only)",
    "C17-3": "round 2. first run: missed; the direct pass now calls multiply / square / add / ... with where= masks on already aligned operands",
    "C17-4": "round 2. first run: caught by C06 only; the argument snapshot now contains a copy of the public exponents (not just keys and bytes), and operands are reused after differentiation",
    "C20-3": "round 2 (same two-site mechanism as C17-4, written independently). first run: caught by C06 only; C20 gained 'reuse' sequences (operand used again after derivative / gradient / call), C17 the exponent snapshot",
    "C20-4": "round 2. first run: missed; the text part now also goes through BytesIO and files with encoding latin1 / utf-8 / default",
    "C04-3": "round 2. needs retain_names=False: first run caught by C15 only; C04 now also runs under random retain settings (checking what alignment must guarantee under any setting)",
    "C07-3": "round 2. first run: missed; a universe with unsigned coefficients (uint8..uint64, full-shape operands so that nothing is promoted) was added",
    "C09-3": "round 2. first run: caught by C12 only; joins now mix coefficient kinds (narrower first or last)",
    "C09-4": "round 2. first run: missed; reshape is now also called with order='A' on transposed (Fortran-contiguous) views, the expected order being derived from the operand's memory layout",
    "C10-3": "round 2. first run: missed; diff's prepend/append now come in other coefficient kinds than the array",
    "C11-3": "round 2. first run: missed; true_divide / floor_divide are now also called with out= being the dividend itself",
    "C15-4": "round 2. first run: missed; the whole-program entries now evaluate a polynomial in which all terms of an indeterminate cancel with float arguments (result dtype compared across settings)",
    "C18-3": "round 2. first run: missed; start/stop are now also passed as numpy scalars and arrays of signed and unsigned dtypes",
    "C19-3": "round 2. first run: missed; argmax/argmin are now also called with out= and the buffer is compared with the returned index (C19 and the C11 mirror entries argmax_out/argmin_out)",
    "C19-4": "round 2. needs retain_names=False: first run missed; set_dimensions now runs under random retain settings",
    "C01-r3G1-1": "round 3 (agent given a file group and all twenty statements). first run: missed by C01 and C12; C01's leaves now include flat lists that mix plain Python numbers with narrow numpy scalars and narrow 0-d polynomials",
    "C18-r3G2-1": "round 3. first run: missed by C18 and C03; the grid cases now also pass a vector start with a scalar stop and spell the number of dimensions as default / 1 / None / tuple of names / string (names compared, not just counted)",
    "C11-r3G3-2": "round 3. first run: missed by C11 and C17; the copyto entry now also copies a constant polynomial into a plain numeric ndarray under a where= mask",
    "C11-r3G4-1": "round 3. first run: missed; isclose / allclose now get operands whose distance lies inside the band where the relative tolerance of the *second* operand decides (rtol=0.1, factors 1.05 / 1.105 / 1.2, both orders)",
    "C11-r3G7-1": "round 3. first run: missed by C11 and C15; constants of the mirror group are now sometimes stored with an explicit all-zero term of an indeterminate (before or after the constant term), and isfinite gets inf / nan values",
    "C19-r3G8-1": "round 3. caught by C19; C11 and C15 missed it in the first run and C11 catches it now through the zero-term constants",
    "C19-r3G8-2": "round 3. first run: missed by C19 and C06; float coefficients are now also scaled by 1e-300 .. 1e200 ('non-zero' is exact, not a tolerance)",
    "C11-r3G10-2": "round 3. first run: missed by C11, C12 and C07; constants now come in narrow dtypes (int8..int32, uint8, float16/32) and the numeric division entries get float16/float32 dividends whose quotient is exact only in numpy's promoted dtype; patch rebased onto the repository fix of floor_divide's integer dtype",
    "C09-r3G6-1": "round 3. the agent's demo asserted its own worktree path; that line was removed here",
    "C11-r3G6-2": "round 3. the agent's demo asserted its own worktree path; that line was removed here",
    "C02-r4H2-1": "round 4 (file group + a short list of candidate properties). first run: missed; argument shapes now include single values that carry axes ((1,), (1,1), (1,1,1)); the agent's demo asserted its own worktree path, that line was removed",
    "C06-r4H2-2": "round 4. first run: missed by C06 and C12; C06 now differentiates int8 / int16 / uint8 polynomials whose coefficients sit at the limits of their type (exponent x coefficient must not wrap); demo path assertion removed",
    "C08-r4H3-2": "round 4. first run: missed by C08 and C11; the operator table gained the form 'out': every function that accepts out= is called through both spellings with a fresh buffer (plain array for comparisons / constant operands, a polynomial otherwise), result and buffer compared. The unchanged library already disagrees for most of them (KF-C08-out-*), remainder is one of the consistent ones",
    "C04-r4H4-1": "round 4. first run: missed by C04 and C01; operands now also store their names in a rotated / shuffled order (q1,q2,q0), in C04 and in C01's leaves",
    "C12-r4H8-2": "round 4. first run: missed by C12 and C01; new cast-oracle entry power_exact: (c*q0)**1,2,3 with coefficients at the limits of every integer type (beyond 2**53 for 64 bit) and non-dyadic float16/32 values, compared exactly (integers as Python ints, no longer through complex128)",
    "C17-r5I4-2": "round 5. first run: missed; C17's direct pass gained the workload numeric_args (integer / float ndarrays with negative entries passed as axes, shapes, repeats, indices, evaluation points and bounds, snapshot before and after, also on the raising path), and the catalogue now spells integer-sequence arguments as ndarrays too",
    "C18-r5I1-1": "round 5. first run: missed; glexsort keys now also come in every integer dtype with values close to the limits of the type (the grade is the exact column sum)",
    "C12-r5I8-2": "round 5. first run: missed; astype is now also called with copy=False / copy=True / order= / casting=",
    "C11-r5I7-1": "round 5. first run: missed; around / round now also get integer coefficients with decimals -1 / -2",
    "C08-r5I7-2": "round 5. first run: missed by C08 and C11 (a newly registered ufunc counted as 'registered without generator'); the negative shard now audits the two registries: every registered numpy callable must be served by the implementation of that very function (or a numpy alias / the documented polynomial-division design)",
    "C12-r5I5-1": "round 5. a join (hstack) takes the first operand's dtype where neither operand can hold the other: not arithmetic, so outside C12's clauses; caught by C09 (names and coefficient dtype of joins)",
    "C14-r6-1": "round 6 ('hard mode': the change must survive the agent's own naive random tester). first run: missed; the history alphabet gained 'enterE' (global_options() without any option, a pure scope)",
    "C14-r6-2": "round 6. first run: missed; the alphabet gained 'enterPB' (the manager object is created, set_options is called, then the block is entered: 'previous' is the state at entry)",
    "C06-r6-2": "round 6. first run: missed by C06 and C15; derivative is now also called with 9-14 designators at once on monomials of degree 12-18 (the product of the exponents brought down passes 2**32)",
    "C20-r6-1": "round 6. a designator taken from variable(3) against an operand over (q1, q2): caught by C06 (designators in every form); C20 and C04 do not differentiate with polynomial designators",
    "C20-r6-2": "round 6. first run: caught by C06 and C04, missed by C20; C20's random operations now use name sets such as (q2, q10), (q9, q11) and second operands over another set of indeterminates",
    "C07-r6-2": "round 6. first run: caught by C04, missed by C07; compared operands now also mention different sets of indeterminates (q2 vs q10)",
    "C04-r6-1": "round 6. first run: missed by C04 and C01; operands are now also spelled as tuples, and a single operand may be a list / tuple of polynomials and numbers",
    "C03-r6-1": "round 6. an argument (the caller's exponent array) is overwritten: caught by C17; C03 now also rebuilds twice from the same attribute objects and catches it too",
    "C03-r6-2": "round 6. options not restored when an exception crosses the block: caught by C14 (the property about exit paths); C03 never lets an exception cross an option block",
    "C15-r6-2": "round 6. first run: missed - the seed exposed a dead monitor: C15's extra operation 'divmod' had been shadowed by the later catalogue entry of the same name (numeric divmod, which refuses polynomials, so every case was skipped as 'fails under defaults too'). Renamed to poly_divmod (with / and %), weighted x4, an assertion forbids such shadowing and every extra operation is a required counter now",
    "C05-r6-2": "round 6. first run: missed by C05 and C15; divisors (and sometimes dividends) now also come with uint8..uint64 / int8 / int16 coefficients",
    "C18-r7-1": "round 7 (hard mode). first run: missed by C18 and C17; after every glexindex / bindex case the returned array is overwritten and the same call repeated (no shared or cached result arrays)",
    "C13-r7-1": "round 7. first run: missed; text cases now also write two arrays one after the other into one StringIO / BytesIO and load them back in order (max_rows)",
    "C08-r7-2": "round 7. first run: missed by C08 and C10; the reduce form now also calls the method of the same name (poly.prod(), .all(), .max() ... with and without arguments) and multiply.reduce operands come with names that do not start at q0 and in narrow / unsigned dtypes",
    "C19-r7-1": "round 7. first run: missed; lead_exponent / lead_coefficient / sortable_proxy are now also called with positional flags (poly, graded, reverse)",
    "C12-r7-1": "round 7. first run: missed by C12 and C09; the dtype request is now also made on data spelled as nested lists, tuples of lists and lists of polynomial arrays",
    "C12-r7-2": "round 7. reshape ignoring order=: values end up at other positions, dtype and the set of values unchanged; caught by C09 (element placement), not a C12 clause",
    "C11-r7-1": "round 7. first run: missed; the division guard now also hands the non-constant divisor over as list / tuple / nested list containing polynomials (numpoly spelling, or numpy spelling with a polynomial dividend)",
    "C17-r7-1": "round 7. first run: missed; new direct workload copyto_poly: a source whose terms are stored in shuffled order is copied (both spellings, and into a destination that lacks a term) and must stay unchanged",
    "C17-r7-2": "round 7. first run: missed; new direct workload foreign_arrays: big-endian / float32 ndarrays as data and operands, bytes compared before and after",
    "C14-r8-2": "round 8 (hard mode). first run: missed; the 'mutate' step now also writes into the dictionary handed out by the innermost open block (with ... as options)",
    "C20-r8-1": "round 8. first run: missed by C20, C02 and C03; every exponent table of the encode part is now also handed over as an integer array of the narrowest types that hold it (uint8, int16, uint16, ...)",
    "C04-r8-1": "round 8. first run: missed by C04 and C15; 8% of the alignment cases now run under another variable prefix (default_varname 'var' / 'x' / 'zz' with a matching filter) after earlier cases ran under 'q'",
    "C07-r8-1": "round 8. options not restored when an exception leaves the block: caught by C14 (exit paths); C07 never lets an exception cross an option block",
    "C07-r8-2": "round 8. first run: missed by C07 and C14; float operands now also differ by 2**-40 .. 1e-9 in one coefficient (the order is exact, not up to a tolerance)",
    "C03-r8-1": "round 8. first run: missed; constructor triples now spell the names as tuple / list / polynomial array / one string ('q3') / a prefix ('q')",
    "C03-r8-2": "round 8. a rejected set_options call has already applied the valid keys: caught by C14 (atomic update); outside C03's quantifier",
    "C15-r8-1": "round 8. first run: missed by C15, C17 and C04; C15's getset entry now writes into the storage of a basic-index result and compares the *source* (and a fresh copy of it) across settings",
    "C05-r8-2": "round 8. needs complex coefficients (the agent notes the quantifier names integers and floats only); C05 now draws complex operands in one case out of seven and catches it",
    "C10-r8-1": "round 8. first run: missed by C10 and C11; matmul now also gets a plain numeric array / list as the *left* operand",
    "C10-r8-2": "round 8. first run: missed by C10 and C11; det now also gets matrices stacked along two and three leading axes",
    "C01-r8-1": "round 8. first run: caught by C12 and C09, missed by C01; C01's list operands now include nested lists whose first row holds ints and later rows non-integral floats",
    "C01-r8-2": "round 8. first run: missed by C01, C12 and C09; numeric array operands now also come in non-native byte order (layout 'swapped', in every check that draws constant operands)",
    "C02-r9-1": "round 9 (hard mode). first run: missed; after all riders the coefficients are doubled in place through the raw view and the same call must return doubled values (no per-object caches)",
    "C02-r9-2": "round 9. first run: missed; 15% of the calls now run under retain_names=False / retain_coefficients=True (evaluation binds arguments to the polynomial's names whatever the options say)",
    "C18-r9-2": "round 9. first run: missed by C18 and C17; cross_truncate gets its index grid as int64 / float64 / uint8 / int32 array, the same array object is used for two calls and must come back unchanged",
    "C09-r9-2": "round 9. first run: missed; new catalogue entry stack_out (stack into an output polynomial that has storage for every term, all axes, both spellings)",
    "C17-r9-1": "round 9. first run: missed; the clean workload now runs every retain flag combination (keywords and global options) on an operand that carries an unused name",
    "C17-r9-2": "round 9. first run: missed; new workload print_small: array_str / array_repr / str / repr with suppress_small on scalar polynomials with tiny coefficients",
    "C12-r9-2": "round 9. advanced indices separated by a slice: element placement, caught by C09 (the sepadv index style); not a dtype clause of C12",
    "C11-r9-1": "round 9. first run: missed; isclose / allclose are now also called with positional tolerances (a, b, rtol, atol)",
    "C08-r9-1": "round 9. first run: missed; the out form now also uses the first operand itself as output (p /= c spelled with out=) and compares with the result computed without out=; all pairs are compared even when one spelling is a recorded finding",
    "C08-r9-2": "round 9. first run: missed; new scenario after_error: apply_along_axis with a callback that raises half-way, then the same function again in both spellings against sum(axis)",
    "C19-r9-1": "round 9. first run: missed by C19 and C17; the arrays returned by tonumpy / lead_exponent / lead_coefficient are overwritten and the polynomial is queried again",
    "C16-r9-1": "round 9. first run: missed by C16, C15 and C14; a quarter of the printing cases now also set retain_names / retain_coefficients",
    "C16-r9-2": "round 9. a rejected set_options call has applied the keys before the unknown one: caught by C14",
    "C06-r10-2": "round 10 (hard mode). first run: missed; designators now also come from another setting (created under retain_coefficients=True, used under the case's options) and from an earlier alignment (they carry all-zero terms)",
    "C14-r10-1": "round 10. first run: the check ended *inconclusive* (the library raised KeyError while restoring, outside any guard, and the worker died); exceptions raised inside the library outside a guarded call are violations now (harness and worker), and a history reports 'unexpected <exception>'",
    "C14-r10-2": "round 10. first run: missed; option settings with None values ('setN', 'enterN') joined the alphabet",
    "C10-r10-1": "round 10. first run: missed by C10 and C11; diff is now also called with positional n, axis, prepend, append",
    "C03-r10-1": "round 10. first run: caught by C11 (read-only constant operands), missed by C03; a fifth of the constructor triples now pass write-protected coefficient arrays",
    "C04-r10-1": "round 10. first run: missed by C04 and C15; a fifth of the cases with two or more operands first send them through align_exponents / align_indeterminants and align the outputs",
    "C04-r10-2": "round 10. first run: missed by C04 and C15; outputs made from plain numbers / lists / arrays are overwritten and the same inputs aligned again",
    "C07-r10-1": "round 10. first run: missed by C07 and C15; a fifth of the random pairs are aligned first and compared as views (.T, ravel(), [::-1]) of the aligned arrays",
    "C07-r10-2": "round 10. needs retain_names=False: caught by C15; C07 runs under the sort options only",
    "C15-r10-1": "round 10. hessian under retain_names=False on a name set without q0: caught by C06 (its option dimension); C15's derivative entry did not draw such a case in the quick tier",
    "C15-r10-2": "round 10. tonumpy reading the first stored term: caught by C19 (constants stored behind a zero term); the mechanism repeats C19-r3G8-1",
    "C20-r10-1": "round 10. needs retain_names=False: caught by C15",
    "C20-r10-2": "round 10. numpoly.call writes the positional values into the caller's kwargs dict: caught by C17 (and by C02's repeat rider); C20 does not reuse a kwargs dict",
    "C05-r10-1": "round 10. first run: missed; 12% of the divisions now run with floating-point faults and warnings promoted to errors (numpy.errstate(all='raise'))",
    "C05-r10-2": "round 10. first run: missed; exact multiples now also have cofactors scaled by 2**-40 / 2**-60 / 2**-80 (far below machine epsilon, far above the documented absolute cutoff of 1e-30), with the tolerance following that scale",
    "C18-r11-2": "round 11 (hard mode). first run: missed by C18 and C08; glexindex is now also called with all six arguments positionally (start, stop, dimensions, cross_truncation, graded, reverse)",
    "C11-r11-2": "round 11. numpy.minimum.reduce mapped to amax: a spelling disagreement, caught by C08 (reduce form); C11 drives amin through its function and method spellings only",
    "C13-r11-1": "round 11. first run: missed by C13 and C20; integer polynomials with coefficients beyond 2**53 are now written with fmt='%d' and read back with dtype=int64",
    "C12-r11-2": "round 11. first run: missed by C12, C01 and C17; new cast-oracle entry update_through_view: coefficients are read once, the polynomial is overwritten through a transposed / reshaped view (copyto), then cast and rebuilt",
    "C02-r11-2": "round 11. first run: missed by C02 and C17; every full numeric evaluation result is overwritten and the call repeated (arguments and next result must be unchanged), and 5% of the polynomials are bare indeterminates",
    "C16-r11-1": "round 11. first run: missed by C16 and C14; arrays of two and more dimensions are now also printed as transposed views and Fortran-ordered copies",
    "C16-r11-2": "round 11. first run: missed by C16 and C14; to_sympy is now called inside the option block before printing (this exposed to_sympy's own dependence on the display signs in the unchanged library, fixed in the repository; the seed's patch was rebased onto that fix)",
    "C09-r11-1": "round 11. first run: missed by C09 and C11; concatenate is now also called with axis=None (also with a single operand)",
    "C09-r11-2": "round 11. first run: missed by C09 and C11; full_like now gets shape= overrides, including the 0-d ()",
    "C17-r11-1": "round 11. first run: missed; new workload save_negzero: polynomials holding -0.0 are written with both savetxt spellings and compared byte by byte",
    "C17-r11-2": "round 11. first run: missed; new workload scalar_axis: thirteen reductions on 0-d polynomials with axis 0 / -1 / 1 / None in both spellings (the snapshot includes the shape)",
    "C14-r12-1": "round 12 (hard mode, last round). first run: missed; global_options is now also used as a function decorator: recursion and mutual calls through one decorator object, normal and raising",
    "C14-r12-2": "round 12. first run: missed; the unknown option names of bad_set / bad_enter now rotate through pieces and abbreviations of known names ('graded', 'sort', 'retain_coefficient', 'e', ...)",
    "C05-r12-1": "round 12. first run: missed; new part run_sequences: the same operand objects are divided again after the divisor array / the dividend's storage was updated in place",
    "C05-r12-2": "round 12. first run: missed; run_sequences also divides an array right after a scalar division that raised inside the reduction (and after a rejected keyword)",
    "C15-r12-1": "round 12. first run: missed by C15 and C07; new whole program with float32 / int16 coefficients in which every term of one indeterminate cancels (dtypes compared across settings)",
    "C01-r12-1": "round 12. needs retain_names=False: caught by C15; C01 runs under default options",
    "C03-r12-1": "round 12. byte-swapped coefficients reach a C writer that silently ignores them: caught by C12 (poison + swapped operands) - the mechanism repeats C12-r9-1 / C01-r8-2 from another site",
    "C03-r12-2": "round 12. first run: missed by C03, C14 and C12; C15 now checks after every operation that the global options are still what the block set (caught there: isfinite leaves retain_coefficients=False behind)",
    "C04-r12-1": "round 12. first run: missed by C04 and C12; operands now also carry uint64 coefficients beyond 2**53",
    "C04-r12-2": "round 12. first run: missed by C04 and C12; a second operand may now be a view of the first one (its transpose, or a reshape with a new axis)",
    "C20-r12-2": "round 12. successive derivatives by position under retain_names=False: caught by C06 (option dimension)",
    "C16-r3G2-2": "round 3. patch rebased onto the later repository fix of to_sympy (display signs); still caught by C16",
    "C02-r7-2": "round 7. first run: missed; the carrier rider now also carries the integers as int16 / uint8 / int8 / uint16 whenever every single power fits that type, and four fixed cases (e.g. q0*q1 at (20, 20)) make sure a product across arguments that does not fit is exercised in every run",
    "C01-r13-1": "round 13 (second batch). product exponents of 80 and more through the byte-keyed C kernel (UnicodeDecodeError): caught by C20, the property that quantifies over exponent size; C01 draws small exponents",
    "C04-r13-1": "round 13 (second batch). OPEN: not caught by C04, C12, C09, C01 - align_shape returns zero-size operands unbroadcast; no workload aligns an empty operand with one of another shape. Left for the next session (zero-size shapes in C04's generator; the library's own behaviour on empties has a recorded finding, KF-C12-empty-input, that such a generator must be checked against first)",
    "C05-r13-1": "round 13 (second batch). first run: missed; new univariate family with one coefficient of +-2**60 next to small integer-valued ones divided by c*q**k (every step exact in binary floating point), checked with an absolute tolerance instead of one relative to the largest coefficient",
    "C17-r13-1": "round 13 (second batch). two cooperating sites (align_exponents hands back the caller's objects; poly_divmod flushes tiny remainder coefficients in place): caught by C05 (its operands-unchanged comparison after each division), missed by C17's direct pass, which has no dividend whose coefficients are all below 1e-30",
    "C18-r13-1": "round 13 (second batch). first run: missed; new history cases: the same grid of more than 1000 candidate tuples is requested again in one process under a growing and shrinking cross-truncation norm",
    "C08-r13-1": "round 13 (session 3, hard mode, one change per property). first run: missed; the negative half now first calls every registered function that shares its __name__ with an unregistered one of another numpy module (diagonal / outer / matmul ...), so dispatcher state left by served calls is in place when the namesake must be refused",
    "C06-r13-1": "round 13. first run: missed by C06, C15 and C20; new directed family: indeterminates stored in non-canonical order (q1 before q0), one only in a linear term, differentiated several times in one call, mostly under retain_names=False",
    "C09-r13-1": "round 13. first run: missed; tile now also draws reps made only of ones, longer than the array has dimensions ([1], [1,1], [1,1,1], [1,1,1,1])",
    "C03-r13-1": "round 13. first run: missed by C03 and C17; M-WF now writes into the matrix returned by .exponents (its own copy), re-reads the exponents and restores the write: what a polynomial reports may not depend on what a caller did to an earlier answer",
    "C11-r13-1": "round 13. first run: missed; isclose / allclose now get integer operands of size 250000 .. 3e7 that are 0, 1 or 2 apart under the default tolerances (rtol*|b| > 1 there)",
    "C16-r13-1": "round 13. first run: caught by C18 (glexsort itself, where the change sits), missed by C16, C07, C20; C16 now prints polynomials in 13 indeterminates with powers 20-27 and in 3 indeterminates with powers up to 54000 (order of printed terms compared with the model order)",
    "C06-2": "first run: caught by C06, missed by C15; C15's derivative entry now differentiates with respect to several variables",
}
REJECTED = [
    ("C09-2", "align_indeterminants via numpy.searchsorted on numerically sorted names",
     "rejected: with the change test_aspolynomial fails under PYTHONHASHSEED=0 (13 failed / 208 passed), "
     "so it does not pass the existing tests reliably"),
]


def main():
    rows = []
    for path in sorted(glob.glob(os.path.join(HERE, "seeded", "*", "meta.json"))):
        name = os.path.basename(os.path.dirname(path))
        meta = json.load(open(path))
        rows.append((name, meta))
    out = ["# Seeded breaking changes", "",
           "Each directory holds one change to jonathf/numpoly written by a fresh sub-agent that was given",
           "only the text of one property and a scratch git worktree (nothing from /verif): `patch.diff`",
           "(apply with `git -C /repo apply`), `demo.py` (the agent's demonstration: exit 0 on the unchanged",
           "library, non-zero with the change), `agent_meta.json` (the agent's own notes), `meta.json` (what was",
           "confirmed here) and `results.txt` (output of `tools/seedtest.sh`). Every kept change was confirmed",
           "by us: the pinned suite gives the unchanged result (12 failed / 209 passed, the 12 being BASELINE",
           "`always_fail`) under PYTHONHASHSEED 0, 1 and 2, the demonstration passes on the unchanged tree and",
           "fails with the change. None of these changes is ever committed to /repo; the checks are run",
           "against a scratch copy with the patch applied (`./check <id> --repo <copy>`, quick tier).", "",
           "| Seed | Property | Change (needs) | Caught by (quick tier) | Not caught by (also tried) | History |",
           "|------|----------|----------------|------------------------|----------------------------|---------|"]
    for name, meta in rows:
        summary = (meta.get("summary") or "").replace("|", "/").replace("\n", " ")
        needs = (meta.get("needs") or "").replace("|", "/").replace("\n", " ")
        if len(summary) > 260:
            summary = summary[:257] + "..."
        if len(needs) > 200:
            needs = needs[:197] + "..."
        out.append(f"| {name} | {meta['property']} | {summary} *Needs:* {needs} | "
                   f"{', '.join(meta.get('caught_by', [])) or '-'} | "
                   f"{', '.join(meta.get('not_caught_by', [])) or '-'} | {HISTORY.get(name, '')} |")
    out += ["", "## Rejected", ""]
    for name, what, why in REJECTED:
        out.append(f"* {name}: {what} - {why}")
    out += ["", "Re-run everything with `for d in seeded/*/; do tools/keepseed.sh ...` or a single one with",
            "`tools/seedtest.sh seeded/C05-1/patch.diff seeded/C05-1/demo.py C05`.", ""]
    with open(os.path.join(HERE, "seeded", "README.md"), "w") as handle:
        handle.write("\n".join(out))
    print(len(rows), "seeds listed")


if __name__ == "__main__":
    main()
