#!/bin/sh
# tools/keepseed3.sh <group> <k> [extra checks...]: round-3 seeds (file-group based); property read from the agent's meta
g="$1"; k="$2"; shift 2
prop=$(python3 -c "import json;print(json.load(open('/tmp/${SEED_ROUND:-seed3}-$g/out/meta$k.json'))['property'].split()[0].strip(',;'))")
mkdir -p /tmp/${SEED_ROUND:-seed3}-$g-$k-$prop; rm -rf /tmp/${SEED_ROUND:-seed3}-$g-$k-$prop/out; mkdir -p /tmp/${SEED_ROUND:-seed3}-$g-$k-$prop/out
cp /tmp/${SEED_ROUND:-seed3}-$g/out/mutant$k.diff /tmp/${SEED_ROUND:-seed3}-$g-$k-$prop/out/mutant$k.diff
cp /tmp/${SEED_ROUND:-seed3}-$g/out/demo$k.py /tmp/${SEED_ROUND:-seed3}-$g-$k-$prop/out/demo$k.py
cp /tmp/${SEED_ROUND:-seed3}-$g/out/meta$k.json /tmp/${SEED_ROUND:-seed3}-$g-$k-$prop/out/meta$k.json
SEED_SRC_PREFIX=/tmp/${SEED_ROUND:-seed3}-$g-$k- SEED_DST_NAME=$prop-${SEED_TAG:-r3}$g-$k /verif/tools/keepseed.sh $prop $k $prop "$@"
rm -rf /tmp/${SEED_ROUND:-seed3}-$g-$k-$prop
