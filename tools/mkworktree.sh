#!/bin/sh
# tools/mkworktree.sh <dir>: scratch git worktree of /repo HEAD incl. the (untracked) generated C sources and built extensions
dir="$1"
git -C /repo worktree add --detach "$dir" HEAD >/dev/null 2>&1 || exit 1
cp /repo/numpoly/cfunctions/*.c /repo/numpoly/cfunctions/*.so "$dir/numpoly/cfunctions/" 2>/dev/null
echo "$dir"
